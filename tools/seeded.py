#!/venv/bin/python
"""Seeded-change bookkeeping (never run by a registered check).

tools/seeded.py import <src_dir> <id>        copy patch.diff / demo.py / meta.json of a sub-agent into seeded/<id>/
tools/seeded.py eval <id>... [--checks C01,C05] [--tier quick]
        for each seeded/<id>: scratch worktree of /repo HEAD under /var/tmp (never /repo itself), demo on the pristine
        tree (must exit 0), apply patch, demo again (must exit non-zero), pinned test-suite (must stay 637/637), then
        the named checks (default: the property's own check) with VERIF_REPO pointing at the scratch tree and
        evidence/replay redirected to /var/tmp.  Results are written to seeded/<id>/meta.json ("verified") and the
        worktree is removed.
tools/seeded.py table                        print the which-check-catches-which-change table (markdown)
"""
import json
import os
import re
import shutil
import subprocess
import sys
import tempfile

VERIF = os.path.dirname(os.path.dirname(os.path.abspath(__file__)))
SEEDED = os.path.join(VERIF, 'seeded')


def sh(cmd, **kw):
    return subprocess.run(cmd, shell=isinstance(cmd, str), stdout=subprocess.PIPE, stderr=subprocess.STDOUT,
                          text=True, errors='replace', **kw)


def do_import(src, sid):
    dst = os.path.join(SEEDED, sid)
    os.makedirs(dst, exist_ok=True)
    for name in ('patch.diff', 'demo.py', 'meta.json'):
        shutil.copy(os.path.join(src, name), os.path.join(dst, name))
    print('imported', sid)


def evaluate(sid, checks, tier):
    d = os.path.join(SEEDED, sid)
    meta = json.load(open(os.path.join(d, 'meta.json')))
    prop = meta['property']
    checks = checks or [prop]
    wt = tempfile.mkdtemp(prefix='verif_seeded.', dir='/var/tmp')
    os.rmdir(wt)
    ev = wt + '.ev'
    head = sh('git -C /repo rev-parse --short HEAD').stdout.strip()
    res = {'repo_head': head, 'tier': tier, 'checks': {}}
    try:
        r = sh('git -C /repo worktree add -q %s HEAD' % wt)
        if r.returncode:
            print(r.stdout)
            return None
        demo = os.path.join(d, 'demo.py')
        res['demo_pristine_exit'] = sh(['/venv/bin/python', demo], cwd=wt, timeout=600).returncode
        r = sh(['git', '-C', wt, 'apply', os.path.join(d, 'patch.diff')])
        if r.returncode:
            res['applies'] = False
            print(sid, 'PATCH DOES NOT APPLY', r.stdout)
        else:
            res['applies'] = True
            res['demo_changed_exit'] = sh(['/venv/bin/python', demo], cwd=wt, timeout=600).returncode
            r = sh([os.path.join(VERIF, 'tools', 'baseline.sh'), wt])
            res['baseline'] = r.stdout.strip().splitlines()[-1]
            env = dict(os.environ, VERIF_REPO=wt, VERIF_EVIDENCE_DIR=ev, VERIF_REPLAY_DIR=ev + '/replay')
            for c in checks:
                r = sh([os.path.join(VERIF, 'check'), c, '--tier', tier], cwd=VERIF, env=env, timeout=7200)
                sigs = re.findall(r'signature=(\S+)', r.stdout)
                res['checks'][c] = {'exit': r.returncode, 'violations': len(re.findall(r'(?m)^VIOLATION', r.stdout)),
                                    'first_signatures': sigs[:3]}
                print(sid, c, 'rc=%d' % r.returncode, 'violations=%d' % res['checks'][c]['violations'], sigs[:2])
    finally:
        sh('git -C /repo worktree remove --force %s' % wt)
        shutil.rmtree(wt, ignore_errors=True)
        shutil.rmtree(ev, ignore_errors=True)
    ok = (res.get('applies') and res.get('demo_pristine_exit') == 0 and res.get('demo_changed_exit') not in (0, None)
          and 'missing=0' in res.get('baseline', ''))
    res['confirmed'] = bool(ok)
    old = meta.get('verified', {})
    if old.get('checks') and old.get('repo_head') == head and old.get('tier') == tier:
        merged = dict(old['checks'])
        merged.update(res['checks'])
        res['checks'] = merged
    meta['verified'] = res
    meta['ran'] = ('tools/seeded.py eval %s: demo.py in a scratch worktree of /repo before and after `git apply '
                   'patch.diff`, tools/baseline.sh on the changed tree, ./check <id> with VERIF_REPO=<worktree>' % sid)
    json.dump(meta, open(os.path.join(d, 'meta.json'), 'w'), indent=1, sort_keys=True)
    print(sid, 'confirmed=%s' % res['confirmed'], 'demo %s->%s' % (res.get('demo_pristine_exit'),
                                                                  res.get('demo_changed_exit')), res.get('baseline'))
    return res


def benign(sid, tier):
    """A behaviour-preserving change (seeded/<id>/patch.diff, meta.json with "benign": true): the pinned suite must pass
    and every check must stay silent (exit 0) on the changed tree."""
    d = os.path.join(SEEDED, sid)
    meta = json.load(open(os.path.join(d, 'meta.json')))
    wt = tempfile.mkdtemp(prefix='verif_benign.', dir='/var/tmp')
    os.rmdir(wt)
    ev = wt + '.ev'
    res = {'repo_head': sh('git -C /repo rev-parse --short HEAD').stdout.strip(), 'tier': tier, 'checks': {}}
    try:
        if sh('git -C /repo worktree add -q %s HEAD' % wt).returncode:
            return
        r = sh(['git', '-C', wt, 'apply', os.path.join(d, 'patch.diff')])
        res['applies'] = r.returncode == 0
        if r.returncode:
            print(sid, 'PATCH DOES NOT APPLY', r.stdout)
        else:
            res['baseline'] = sh([os.path.join(VERIF, 'tools', 'baseline.sh'), wt]).stdout.strip().splitlines()[-1]
            env = dict(os.environ, VERIF_REPO=wt, VERIF_EVIDENCE_DIR=ev, VERIF_REPLAY_DIR=ev + '/replay')
            for c in ['C%02d' % i for i in range(1, 20)]:
                r = sh([os.path.join(VERIF, 'check'), c, '--tier', tier], cwd=VERIF, env=env, timeout=7200)
                sigs = re.findall(r'signature=(\S+)', r.stdout)
                res['checks'][c] = {'exit': r.returncode, 'first_signatures': sigs[:3]}
                print(sid, c, 'rc=%d' % r.returncode, sigs[:2])
    finally:
        sh('git -C /repo worktree remove --force %s' % wt)
        shutil.rmtree(wt, ignore_errors=True)
        shutil.rmtree(ev, ignore_errors=True)
    res['all_silent'] = bool(res.get('applies')) and all(v['exit'] == 0 for v in res['checks'].values()) \
        and 'missing=0' in res.get('baseline', '')
    meta['verified'] = res
    json.dump(meta, open(os.path.join(d, 'meta.json'), 'w'), indent=1, sort_keys=True)
    print(sid, 'all_silent=%s' % res['all_silent'], res.get('baseline'))


def table():
    print('| change | property | what it needs to manifest | confirmed | caught by (exit 1) | silent (exit 0) |')
    print('|---|---|---|---|---|---|')
    for sid in sorted(os.listdir(SEEDED)):
        p = os.path.join(SEEDED, sid, 'meta.json')
        if not os.path.exists(p):
            continue
        m = json.load(open(p))
        if m.get('benign'):
            continue
        v = m.get('verified', {})
        caught = [c for c, r in sorted(v.get('checks', {}).items()) if r['exit'] == 1]
        silent = [c for c, r in sorted(v.get('checks', {}).items()) if r['exit'] == 0]
        needs = m.get('needs', '').replace('|', '/').replace('\n', ' ')
        if len(needs) > 160:
            needs = needs[:157] + '...'
        print('| %s | %s | %s | %s | %s | %s |' % (sid, m['property'], needs, v.get('confirmed'),
                                                 ' '.join(caught) or '-', ' '.join(silent) or '-'))


def main():
    cmd = sys.argv[1]
    if cmd == 'import':
        do_import(sys.argv[2], sys.argv[3])
    elif cmd == 'eval':
        args = sys.argv[2:]
        checks, tier, ids = None, 'quick', []
        while args:
            a = args.pop(0)
            if a == '--checks':
                checks = args.pop(0).split(',')
            elif a == '--tier':
                tier = args.pop(0)
            else:
                ids.append(a)
        if ids == ['all']:
            ids = sorted(x for x in os.listdir(SEEDED) if not x.startswith('benign'))
        for sid in ids:
            evaluate(sid, checks, tier)
    elif cmd == 'benign':
        tier = 'quick'
        for sid in sys.argv[2:]:
            benign(sid, tier)
    elif cmd == 'table':
        table()


main()
