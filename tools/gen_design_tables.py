#!/venv/bin/python
"""Regenerates the generated parts of DESIGN.md (between <!-- X:BEGIN --> / <!-- X:END --> markers):
FIXES (the fix: commits of /repo), KNOWN (counts of known findings per property), SEEDED (the seeded-change table)."""
import collections
import json
import os
import re
import subprocess

VERIF = os.path.dirname(os.path.dirname(os.path.abspath(__file__)))


def fixes():
    log = subprocess.check_output(['git', '-C', '/repo', 'log', '--reverse', '--format=%h %s'], text=True).splitlines()
    return '\n'.join('* `%s` %s' % (l.split()[0], l.split(' ', 2)[2]) for l in log if ' fix: ' in l)


def known():
    d = json.load(open(os.path.join(VERIF, 'known_findings.json')))
    c = collections.Counter((e['property'], e['status']) for e in d['findings'])
    props = sorted({p for p, _ in c})
    rows = ['| property | known (recorded, not repaired) | fixed (repaired, recorded for reference) |', '|---|---|---|']
    for p in props:
        rows.append('| %s | %d | %d |' % (p, c.get((p, 'known'), 0), c.get((p, 'fixed'), 0)))
    return '\n'.join(rows)


def seeded():
    return subprocess.check_output([os.path.join(VERIF, 'tools', 'seeded.py'), 'table'], text=True).strip()


def main():
    p = os.path.join(VERIF, 'DESIGN.md')
    s = open(p).read()
    for name, gen in (('FIXES', fixes), ('KNOWN', known), ('SEEDED', seeded)):
        pat = re.compile(r'(<!-- %s:BEGIN -->\n).*?(<!-- %s:END -->)' % (name, name), re.S)
        if not pat.search(s):
            print('marker missing:', name)
            continue
        s = pat.sub(lambda m, gen=gen: m.group(1) + gen() + '\n' + m.group(2), s)
    open(p, 'w').write(s)


main()
