#!/venv/bin/python
"""Manual triage helper (never run by a check): tools/kf.py add <PID> [note]  - records every replay file
currently under /verif/replay/<PID>/ as a known finding (status 'known') unless already listed.
tools/kf.py fixed <PID> <commit> <signature> <what>  - records a fixed entry.
tools/kf.py drop <PID> <signature-substring>  - removes matching known entries.
tools/kf.py tofixed <PID> <signature-substring> <commit>  - turns matching known entries into fixed entries.
tools/kf.py unseen <PID>  - lists known entries the last run of the check did not see (candidates for tofixed/drop)."""
import glob
import json
import os
import sys

VERIF = os.path.dirname(os.path.dirname(os.path.abspath(__file__)))
PATH = os.path.join(VERIF, 'known_findings.json')


def load():
    return json.load(open(PATH))


def save(d):
    d['findings'].sort(key=lambda e: (e['property'], e.get('status'), e.get('signature', '')))
    json.dump(d, open(PATH, 'w'), indent=1, sort_keys=True)


def main():
    cmd = sys.argv[1]
    d = load()
    if cmd == 'add':
        pid = sys.argv[2]
        note = sys.argv[3] if len(sys.argv) > 3 else ''
        have = {(e['property'], e['signature']) for e in d['findings'] if e.get('status') == 'known'}
        n = 0
        for f in sorted(glob.glob(os.path.join(VERIF, 'replay', pid, '*.json'))):
            r = json.load(open(f))
            if (pid, r['signature']) in have:
                continue
            d['findings'].append({'status': 'known', 'property': pid, 'signature': r['signature'],
                                  'what': r.get('what', ''), 'witness': r.get('witness'), 'note': note})
            n += 1
        print('added', n)
    elif cmd == 'fixed':
        pid, commit, sig, what = sys.argv[2:6]
        d['findings'].append({'status': 'fixed', 'property': pid, 'commit': commit, 'signature': sig,
                              'what': 'fixed: property=%s %s %s' % (pid, commit, what)})
    elif cmd == 'tofixed':
        pid, sub, commit = sys.argv[2:5]
        n = 0
        for e in d['findings']:
            if e['property'] == pid and e.get('status') == 'known' and sub in e['signature']:
                e['status'] = 'fixed'
                e['commit'] = commit
                e['what'] = 'fixed: property=%s %s %s' % (pid, commit, e.get('what', ''))
                e.pop('note', None)
                n += 1
        print('converted', n)
    elif cmd == 'unseen':
        pid = sys.argv[2]
        ev = json.load(open(os.path.join(VERIF, 'evidence', pid + '.json')))
        seen = set(ev['coverage'].get('known_findings_seen', []))
        for e in d['findings']:
            if e['property'] == pid and e.get('status') == 'known' and e['signature'] not in seen:
                print(e['signature'])
        return
    elif cmd == 'drop':
        pid, sub = sys.argv[2:4]
        before = len(d['findings'])
        d['findings'] = [e for e in d['findings'] if not (e['property'] == pid and e.get('status') == 'known'
                                                          and sub in e['signature'])]
        print('dropped', before - len(d['findings']))
    save(d)


main()
