#!/bin/bash
# tools/run_all.sh [quick|thorough] - runs every registered check, prints its summary line and exit code
TIER=${1:-quick}
cd "$(dirname "$0")/.."
for c in C01 C02 C03 C04 C05 C06 C07 C08 C09 C10 C11 C12 C13 C14 C15 C16 C17 C18 C19; do
  out=$(./check $c --tier $TIER 2>&1); rc=$?
  echo "rc=$rc $(echo "$out" | tail -1)"
  echo "$out" | grep -a '^VIOLATION' -A1 | head -6
done
