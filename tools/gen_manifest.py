#!/venv/bin/python
"""Regenerates /verif/MANIFEST.json from the table below (kept valid at all times)."""
import json
import os
import subprocess

HERE = os.path.dirname(os.path.abspath(__file__))
VERIF = os.path.dirname(HERE)

TB = ('CPython 3.12 (struct, hashlib, json, zoneinfo), attrs equality, cryptodatahub tables (data), '
      'the explorer kernel in /verif/mc and the reference models in /verif/mc/ref')

CHECKS = {
    'C01': dict(
        technique='explicit-state BFS over the object graph (single-field deviations) with a round-trip oracle',
        text='Every object within 1 (2 for 31 top-level classes; thorough: 2 / 3, wide alphabets) single-field '
             'deviations of every seed object (parsed corpus incl. nested values, every enum member, hand seeds) of '
             'all 363 concrete classes; per object: compose, parse_immutable consumes all, parse_exact_size, '
             'field-by-field equality. Domain = constructor-accepted values narrowed by the cited RFC rows of '
             'mc/domain.py.'
             ' Plus two-history exploration: every one-field change of a nested object, top-level field or vector attribute reached by reconstruction and by in-place edit after a compose (must compose identically); and for every class with defaulted arguments the message constructed after an in-place edit of an earlier instance (fresh process per class). Default-constructed objects are seeds.',
        design='§5 C01'),
    'C02': dict(
        technique='exhaustive enumeration of bounded byte-mutation families on the real parsers',
        text='Every truncation, every single-byte substitution/deletion/insertion, all B5 pairs in the header '
             'region, all short strings and token sequences, over every seed of every parsable class (379 classes, '
             '3 entry points + extra parse functions): the call returns or raises a documented error. Bounded: '
             'deviations <= 2 from a seed.'
             ' Further families: one byte raised to 3f/40/7f/ff with 300 filler octets appended (two fillers), JSON member values replaced by 16 alternatives, every uint32-prefixed SSH algorithm/curve name replaced by every other member of its enumeration. Every octet-string constant the library defines (and the RFC 8446 downgrade sentinels) written over every seed at every offset; BER spellings (long-form and indefinite lengths) of the LDAP frames as seeds. The composed form of every object within one deviation of every seed object; reference-encoded certificate options of mixed kinds; all-ones / all-zero words of every field width at every offset.',
        design='§5 C02'),
    'C03': dict(
        technique='exhaustive enumeration of bounded byte-mutation families + suffix families; multi-entry-point '
                  'differential oracle',
        text='Same bounded input space as C02 plus 9 suffixes per accepted frame; on every buffer the three entry '
             'points are compared (n range, in-place remainder, exact-size iff n==len, buffer untouched on failure) '
             'and framing units are checked against an independent header reader and for self-delimitation. Seeds include BER spellings (long-form, indefinite) of the LDAP frames; every registered SSH name and every library-defined constant is substituted into every seed. Every refused frame (seed or single-octet mutant) of a framing class is parsed again with data behind it; SSL 2.0 hellos whose cipher specs end the record, incl. consistently truncated ones.',
        design='§5 C03'),
    'C04': dict(
        technique='explicit-state BFS over the reader/environment system on the real parse_mutable',
        text='Reader loop x fragmenting environment explored as a reachability problem: every (records emitted, '
             'bytes delivered) state of every record sequence of length <= 3 (quick) / 4 over a per-layer alphabet, '
             'every delivery the environment may choose after NotEnoughData(k); invariants: no deadlock '
             '(d+k <= end of record in progress), no premature accept, exact reassembly. Plus TLS handshake messages '
             'cut over records at every set of <= 2-3 positions. Records and handshake messages at the 2^14 / 2^15 / 2^16 boundaries of their length fields (handshake payloads up to 70001 octets) at sparse delivery points; LDAP frames with long-form and four-octet BER lengths in the layer alphabet. TLS records of every content type x {TLS 1.0, 1.2, 1.3} x lengths up to 2^14+256.',
        design='§5 C04'),
    'C05': dict(
        technique='exhaustive enumeration of bounded byte-mutation families, filtered to accepted inputs, with a '
                  'parse-compose-parse-compose oracle',
        text='Every input the parsers ACCEPT among all truncations, single-byte substitutions / deletions / '
             'insertions, short strings, token sequences and cross-class seeds of every class, plus targeted '
             'non-canonical generators (54 date spellings x 5 classes, TXT partitions, all SCSV placements among <= 3 '
             'suites, all 2^16 DNSKEY flag words, MySQL words with <= 2 flipped bits): compose succeeds, is accepted '
             'again in full, parses to an equal object and composes to the same bytes.'
             ' Every corpus seed is re-checked under 3-4 non-UTC process time zones, and observed in a pristine interpreter of its own class versus 3 global parse orders over all classes (parse results must not depend on what was parsed before). Every registered SSH name substituted into every seed, every library-defined constant at every offset.',
        design='§5 C05'),
    'C06': dict(
        technique='exhaustive enumeration against an independent reference encoder (differential oracle), object '
                  'side and wire side',
        text='Object side: every TLS/SSL object within 1 (thorough 2) deviations of the seeds: compose == RFC layout '
             'computed by tls_ref from the public fields (vector prefix width from the RFC ceiling), and '
             'parse(RFC layout) recovers the fields. Wire side: every protocol version, every cipher suite (client and '
             'server hello), every suite list of length <= 3 over {known, unknown, GREASE, both SCSVs}, session ids '
             '0..32, ~150 extension bodies alone and in ordered pairs for client and server, certificate chains, '
             'certificate requests with/without signature algorithms, alerts, records, SSL 2.0 records (2/3-byte '
             'headers, padding 0/1/7): accepted and fields recovered. Every member of the ALPN / NPN / point-format / PSK-mode / compression / certificate-compression code spaces and a key share for every group.',
        design='§5 C06'),
    'C07': dict(
        technique='exhaustive enumeration against an independent reference encoder/decoder (differential oracle)',
        text='Packets for every payload length 1..35000 x 3 record classes checked against RFC 4253 s6 directly '
             '(quick: 1..4096 plus windows); RSA/DSS keys over all boundary bit lengths 8k-1/8k/8k+1; KEXINIT with '
             'every name-list of length <= 3 over a 6-name alphabet in each of the 10 positions and each pair of '
             'positions; keys, certificates (every option alone and in ordered pairs, principals 0-3, validity '
             'boundaries, serial boundaries), banner (420 forms) and DH/GEX/disconnect messages: compose == '
             'reference, parse(reference) == fields.'
             ' Certificates are also edited in place (after a compose) and compared with the equal certificate built by construction; every ECDSA algorithm name x curve identifier blob is parsed and re-composed. Banners of every length 249..259 (parsed and built) and software strings in every letter case; every RFC 3066 language-tag shape; unknown certificate option names next to every known one.',
        design='§5 C07'),
    'C08': dict(
        technique='exhaustive enumeration of RDATA wire forms against an independent reference encoder and key-tag '
                  'algorithm',
        text='DNSKEY RDATA built by dns_ref: 5 RSA algorithms x 7 exponent lengths (1- and 3-octet length forms) x 8 '
             'modulus bit lengths x 4 top-byte patterns, all 2^16 flag words, DSA T 0..8, ECDSA/GOST coordinate '
             'boundaries, Ed25519/Ed448; DS, RRSIG (all RR types, label/TTL/timestamp boundaries), MX, names (all '
             'label sequences <= 3), TXT partitions: parsed, reproduced bit-exactly, key_tag == RFC 4034 App. B over the '
             'wire RDATA; object side: compose == reference.'
             ' Observe / edit in place / observe histories of key_tag and compose on every record seed.',
        design='§5 C08'),
    'C09': dict(
        technique='exhaustive enumeration of specification-level field spaces against an independent reference encoder',
        text='MySQL HandshakeV10 over every lower capability word x 3 upper words, all status words, all character '
             'sets, auth-plugin lengths; SSLRequest both layouts; TPKT; X.224 CR/CC; all RDP flag x protocol subsets; '
             'OpenVPN packet classes x ack arrays of every length 0..255; PostgreSQL; LDAP with every result code: the '
             'reference encoding parses to the TYPE on the wire with the encoded fields, and composing those fields '
             'gives the reference bytes.'
             ' Every self-delimiting PDU is parsed again with more data behind it; messages built with defaults are compared before and after an earlier instance was edited in place (fresh process per class). LDAP: every assignment of {minimal, 1, 4} length octets to the TLVs of request and response, and lengths across the DER form boundaries. MySQL: every auth-plugin part-2 length 0..21 and 247 x plugin name x every other capability; RDP flags compared by enumeration class, both PDU orders in fresh processes.',
        design='§5 C09'),
    'C10': dict(
        technique='complete enumeration of code spaces through the real decoders and list containers',
        text='All 2^8 / 2^16 codes of all 16 code-point factories, alone and as only / first / second element of '
             'each of the 10 list containers (known -> the unique member, unknown/GREASE -> preserved bit-for-bit '
             'with RFC 8701 classification, or InvalidValue); the 3-byte SSL 2.0 cipher-kind space (complete in the '
             'thorough tier); 27 IntEnum-typed wire fields substituted in place over their whole space; all members, '
             'case spellings and prefix pairs of 28 string-coded enumerations and 5 SSH name-lists; static no-alias '
             'clause over every enumeration. Exact for the 1- and 2-byte spaces.'
             ' Two-step histories: every ordered pair of code spaces in a fresh process; every suite code inside a client hello composed three times; every member name of the opaque string enumerations with one stray octet must not decode to the member. Every member name also in other letter cases; the code-point octets of every framing field under every library-defined constant spliced at every offset.',
        design='§5 C10'),
    'C11': dict(
        technique='complete / boundary enumeration of primitive calls against int.to_bytes, under enumerated TZ '
                  'process configurations',
        text='ComposerBinary/ParserBinary driven directly: widths 1-2 all values, width 3 all values with <= 2 '
             'non-zero bytes (all 2^24 thorough), widths 4/8 boundary patterns, four byte orders, both directions; '
             'out-of-range values must raise InvalidValue; every subset of every wire flag enum and every word of '
             '1-2 byte flag fields; fixed-length mpints [0,2^16] x 7 lengths; SSH mpints [-2^17,2^17] and +-(2^n+-1); '
             'timestamps (4/8 bytes, s/ms, naive/aware/other-zone, sentinel) on a 7-day (1-day thorough) grid '
             '1970-2106 plus every UTC-offset transition, under 14 TZ settings. The same TZ settings for every message class with a timestamp field (SCT, RRSIG, certificate validity, hello random), composed and parsed. Every ordered pair of fields (numeric, SSH mpint, timestamp, raw) written by one composer and read back by one parser.',
        design='§5 C11'),
    'C12': dict(
        technique='explicit-state BFS over edit sequences on real vector objects against a list model',
        text='Every concrete ArrayBase subclass of the library (plus four tight-bound toy subclasses that run the '
             'same ArrayBase code): BFS over ~60 concrete sequence-interface events to depth 2-3 (4-5 for the toy '
             'classes, 1-3 from at-maximum / one-below-maximum vectors), states merged by (items, hidden size '
             'counter); per transition the result is compared with a plain list and the bounds, refused edits must '
             'leave the state untouched and use a data-length error; per state compose/prefix/round-trip.'
             ' Constructor aliasing (vector built from a list / from a vector, every event on either side); vectors with a 2^24-1 maximum approached with one stretched item and the smallest encodable item. New items given as a one-shot iterator, a generator or a tuple (slice assignment, extend, +=). Events a plain list refuses (extended slice of another length, positions out of range) must be refused and leave items and size counter unchanged.',
        design='§5 C12'),
    'C13': dict(
        technique='explicit-state exploration of observer histories, buffer-event histories and '
                  'construct/mutate/construct histories on real objects',
        text='(a) every observer (compose, ja3, hassh, fingerprints, key_bytes, key_tag, as_json, as_markdown, '
             '_asdict, str, repr, ==, hash) applied from every object within one deviation of every seed object and '
             'from 12 client hellos at the cipher-suite ceiling: state (canonical dump + process-level encoder state) '
             'must be unchanged whether the call returned or raised, results stable; all observers map the state to '
             'itself, so the one-state graph closes (thorough replays all sequences <= 2). (b) 3 entry points x '
             'buffer events (overwrite, reverse, extend, clear) per seed of every class, both directions. '
             '(c) construct / mutate-in-place / construct histories for every class with defaulted arguments.'
             ' (d) observe with every value observer, edit in place (nested field, top-level field, vector event), observe again - answers must equal those of the equal object built by construction; every edited state, including those only an in-place edit reaches (one field assigned alone where a constructor would complete or refuse the combination; every member of an empty flag set switched on), is put through the purity check of (a); (e) two parses of the same bytes: every in-place edit of one leaves the other unchanged. State equality tolerates private caches (constructor-argument values and library == decide).',
        design='§5 C13'),
    'C14': dict(
        technique='exhaustive enumeration of objects x process configurations (hash seeds, insertion orders, '
                  'serialisation histories)',
        text='Every object within one deviation of every seed object of every class: JSON parses, Markdown is text, '
             'deep copy / equal parse-compose round trip / every insertion order of 2-4 element set and dict fields '
             'serialise identically; the same deterministic object list is serialised under PYTHONHASHSEED 0-3 '
             '(0-15 thorough) in separate processes and compared by digest; every ordered pair of a 48-object panel '
             'is serialised in one process and compared with a fresh process.'
             ' The whole object list is also serialised in 4 (9) different orders, one process each; container-type twins (dict / OrderedDict); serialise / edit in place / serialise histories.',
        design='§5 C14'),
    'C15': dict(
        technique='exhaustive enumeration of client hello wire forms against an independent JA3 reference',
        text='Client hellos built by the reference encoder: 6 versions, every suite list of length 1-3 over 6 codes, '
             'every extension list of length 0-3 over 7 kinds (with duplicates) and absent, group and point-format '
             'lists of length 1-2 over 4 codes, every combination of two (thorough: three) deviating sections; '
             'ja3() == the published algorithm applied to the wire bytes by an independent reader, and unchanged by '
             'compose+parse. Known findings are matched by deviation, not by input.'
             ' Pristine-interpreter histories: a 44-hello panel alone versus after the seeds of every single TLS class and after all of them in both orders. Every number 0..255 as a one-octet code and as a two-octet code in one fresh process, both orders.',
        design='§5 C15'),
    'C16': dict(
        technique='exhaustive enumeration of KEXINIT / key wire forms against reference digests',
        text='KEXINIT wire forms (built by the reference encoder) with every name-list of length <= 3 in each list '
             'HASSH reads and every pair of such lists: both HASSH values equal md5 over the wire name-lists; every '
             'key/certificate within 1-2 deviations of the seeds, RSA keys over boundary bit lengths: SHA-256/SHA-1/MD5 '
             'fingerprints and known_hosts equal digests/base64 of the reference-built blob; every accepted conformant '
             'wire form (seeds + single-byte substitutions): fingerprints are digests of the wire bytes.'
             ' Every ECDSA algorithm name x curve identifier blob; read / edit in place / read histories of HASSH and fingerprints.',
        design='§5 C16'),
    'C18': dict(
        technique='deviation-bounded exhaustive enumeration of RFC-insignificant spellings with a differential oracle',
        text='For every value within one deviation of the seeds of 13 header / TXT policy types (HSTS, Expect-CT, '
             'Expect-Staple, HPKP, Cache-Control, Set-Cookie, Content-Type, X-XSS-Protection, CSP, DMARC, MTA-STS, '
             'TLSRPT, SPF): every spelling with <= 2 (thorough 3) variation rows applied at once, each row citing the RFC '
             'clause that makes it insignificant; NEL JSON member orders x whitespace; header blocks of <= 3 fields x '
             'name case x OWS against a 6-line reference splitter: parse(variant) == parse(canonical). Per-value cap '
             'reported in the evidence.'
             ' Pristine-interpreter histories for every ordered pair of types (outcome of a spelling must not depend on which type was parsed before).',
        design='§5 C18'),
    'C17': dict(
        technique='exhaustive explicit-state enumeration (all pairs, triples, permutations) on the real class',
        text='Complete: every ordered pair and triple of all defined versions, every permutation of every '
             '3-subset through sorted/min/max, every rotation of the full list, set/dict membership. '
             'The space is finite and fully enumerated, so the verdict is exact for the current member table.'
             ' Pair clauses are also evaluated against an independently parsed equal instance of every version.',
        design='§5 C17'),
}

CHECKS['C19'] = dict(
    technique='exhaustive enumeration of a (class, shape) x size grid with deterministic step counting '
              '(sys.monitoring LINE events)',
    text='~130 (class, shape) pairs - hand-written text and vector shapes (many items, one huge item, no separator, '
         'only separators, many unknown / late-failing items), a generic repeat-an-item shape for every vector class, '
         'and maximal-declared-count-with-no-data shapes - x 6 sizes n0*2^i (9 thorough): steps stay within 1.5x the '
         'linear extrapolation, doubling ratio <= 2.6, call depth constant, work independent of declared counts; plus '
         'every truncation and single-byte substitution of every seed of every class against a seed-calibrated linear '
         'bound. A finite-grid statement, not an asymptotic proof.',
    design='§5 C19')

ALL = ['C%02d' % i for i in range(1, 20)]


def main():
    hooks_commits = []
    checks = []
    for pid in ALL:
        if pid not in CHECKS:
            continue
        c = CHECKS[pid]
        checks.append({
            'property_id': pid,
            'quick_cmd': './check %s --tier quick' % pid,
            'thorough_cmd': './check %s --tier thorough' % pid,
            'evidence_file': '/verif/evidence/%s.json' % pid,
            'replay_cmd_template': './check %s --replay {path}' % pid,
            'engine': 'mc-explorer',
            'level_claimed': {'category': 'model_checking', 'text': c['text'], 'design_ref': c['design']},
            'level_note': c.get('note', TB),
            'technique': c['technique'],
        })
    na = [{'property_id': pid, 'reason': 'check not built yet in this round (planned, see DESIGN.md §5/§11); '
                                         'no technique switch - bounded exhaustive exploration applies'}
          for pid in ALL if pid not in CHECKS]
    man = {
        'version': 1,
        'setup_cmd': './setup.sh',
        'hooks': {
            'guard': 'C0R0N3R_CRYPTOPARSER_VERIF',
            'enable': 'no source hooks are needed: checks import /repo/cryptoparser directly (pure Python, '
                      'nothing to build); step counting uses sys.monitoring from outside',
            'baseline_off_cmd': '/verif/tools/baseline.sh /repo',
            'source_commits': hooks_commits,
            'add_only': True,
        },
        'engines': [{
            'name': 'mc-explorer',
            'path': '/verif/mc',
            'serves_properties': [c['property_id'] for c in checks],
            'kind_free_text': 'hand-written explicit-state / deviation-bounded exhaustive explorer in Python '
                              'driving the real cryptoparser code (no abstract model; every explored trace '
                              'is an implementation trace)',
        }],
        'checks': checks,
        'not_applicable': na,
        'notes': 'See DESIGN.md. Known findings: /verif/known_findings.json. Seeded mutants: /verif/seeded/.',
    }
    with open(os.path.join(VERIF, 'MANIFEST.json'), 'w') as fh:
        json.dump(man, fh, indent=1)
    subprocess.check_call(['python3-vt', '-c', '''
import json, jsonschema
jsonschema.validate(json.load(open("%s/MANIFEST.json")), json.load(open("/root/.vp/MANIFEST.schema.json")))
print("MANIFEST ok")''' % VERIF])


if __name__ == '__main__':
    main()
