#!/bin/bash
# tools/eval_mutant.sh <patch.diff> <demo.py> [checks...]
# Applies a seeded change to a scratch worktree of /repo (never to /repo itself), confirms that the pinned test-suite
# still passes and that the demonstration fails with / passes without the change, then runs the named checks (default:
# all) against the scratch tree (VERIF_REPO) with evidence/replay redirected away from /verif.  Prints one line per check.
PATCH=$1; DEMO=$2; shift 2
CHECKS=${@:-C01 C02 C03 C04 C05 C06 C07 C08 C09 C10 C11 C12 C13 C14 C15 C16 C17 C18 C19}
WT=$(mktemp -d /var/tmp/verif_mut.XXXXXX)
rmdir "$WT"
git -C /repo worktree add -q "$WT" HEAD || exit 2
trap 'git -C /repo worktree remove --force "$WT" >/dev/null 2>&1; rm -rf "$WT" /var/tmp/verif_mut_ev.$$' EXIT
( cd "$WT" && timeout 120 /venv/bin/python "$DEMO" >/dev/null 2>&1 ); echo "demo on pristine tree: exit $?"
git -C "$WT" apply "$PATCH" || { echo "PATCH DOES NOT APPLY"; exit 2; }
( cd "$WT" && timeout 120 /venv/bin/python "$DEMO" >/dev/null 2>&1 ); echo "demo with change: exit $?"
/verif/tools/baseline.sh "$WT"
for c in $CHECKS; do
  out=$(cd /verif && VERIF_REPO="$WT" VERIF_EVIDENCE_DIR=/var/tmp/verif_mut_ev.$$ VERIF_REPLAY_DIR=/var/tmp/verif_mut_ev.$$/replay timeout 1500 ./check $c 2>&1)
  rc=$?
  nviol=$(echo "$out" | grep -ac '^VIOLATION')
  echo "$c rc=$rc violations=$nviol $(echo "$out" | grep -a 'signature=' | head -2 | cut -c1-200 | tr '\n' '|')"
done
