#!/bin/bash
# Runs the repository's pinned test-suite (guard OFF) on a tree (default /repo) and compares with
# BASELINE.json's stable_pass list.  exit 0 iff every stable-pass test passes.
TREE=${1:-/repo}
OUT=$(mktemp /var/tmp/verif_junit.XXXXXX.xml)
cd "$TREE" && /venv/bin/python -m pytest -ra -q -p no:cacheprovider --timeout=900 --continue-on-collection-errors --junitxml="$OUT" >/dev/null 2>&1
/venv/bin/python - "$OUT" <<'PY'
import json, sys, xml.etree.ElementTree as ET
base = set(json.load(open('/root/.vp/BASELINE.json'))['stable_pass'])
passed = set()
for tc in ET.parse(sys.argv[1]).getroot().iter('testcase'):
    if not any(ch.tag in ('failure', 'error', 'skipped') for ch in tc):
        passed.add('%s::%s' % (tc.get('classname'), tc.get('name')))
missing = sorted(base - passed)
print('baseline stable_pass=%d passed_now=%d missing=%d' % (len(base), len(passed & base), len(missing)))
for m in missing[:20]:
    print('  MISSING', m)
sys.exit(1 if missing else 0)
PY
rc=$?
rm -f "$OUT"
exit $rc
