#!/bin/bash
# tools/run_some.sh <tier> <check>... - like run_all.sh for the named checks, with the full violation list
TIER=$1; shift
cd "$(dirname "$0")/.."
for c in "$@"; do
  out=$(./check $c --tier $TIER 2>&1); rc=$?
  echo "rc=$rc $(echo "$out" | tail -1)"
  echo "$out" | grep -a 'signature=\|INTERNAL\|Error\|cut by' | cut -c1-300 | head -60
done
