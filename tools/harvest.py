#!/venv/bin/python
"""Regenerates /verif/corpus/corpus.jsonl from the repository's own test-suite (no repo edit)."""
import json
import os
import subprocess
import sys

HERE = os.path.dirname(os.path.abspath(__file__))
OUT = '/tmp/verif_harvest.%d.jsonl' % os.getpid()
env = dict(os.environ, VERIF_HARVEST_OUT=OUT, PYTHONPATH=HERE)
subprocess.call(['/venv/bin/python', '-m', 'pytest', '-q', '-p', 'no:cacheprovider', '-p', 'harvest_plugin',
                 '--continue-on-collection-errors',], cwd='/repo', env=env,
                stdout=subprocess.DEVNULL)
rows = {}
for line in open(OUT):
    r = json.loads(line)
    if not r['module'].startswith('cryptoparser.'):
        continue
    rows[(r['module'], r['cls'], r['hex'], r['outcome'])] = r
os.unlink(OUT)
dst = os.path.join(HERE, '..', 'corpus', 'corpus.jsonl')
with open(dst, 'w') as fh:
    for k in sorted(rows):
        fh.write(json.dumps(rows[k], sort_keys=True) + '\n')
print('rows', len(rows), 'accepted', sum(1 for k in rows if k[3] == 'ok'),
      'classes', len({(k[0], k[1]) for k in rows}))
