"""pytest plug-in: records every (class, input, outcome) that the repository's own test-suite
hands to a parse entry point.  Used only by tools/harvest.py to (re)generate corpus/accepted.jsonl;
it does not edit /repo."""
import json
import os

_OUT = os.environ.get('VERIF_HARVEST_OUT', '/tmp/verif_harvest.jsonl')
_seen = set()
_fh = None


def _wrap(base, name):
    orig = getattr(base, name).__func__

    def wrapper(cls, parsable, *a, **kw):
        key = None
        if isinstance(parsable, (bytes, bytearray)):
            data = bytes(parsable)
            key = (cls.__module__, cls.__qualname__, data)
        try:
            result = orig(cls, parsable, *a, **kw)
        except BaseException as e:  # noqa
            if key is not None:
                _record(key, type(e).__name__)
            raise
        if key is not None:
            _record(key, 'ok')
        return result

    setattr(base, name, classmethod(wrapper))


def _record(key, outcome):
    global _fh
    k = key + (outcome,)
    if k in _seen:
        return
    _seen.add(k)
    if _fh is None:
        _fh = open(_OUT, 'a')
    _fh.write(json.dumps({'module': key[0], 'cls': key[1], 'hex': key[2].hex(), 'outcome': outcome}) + '\n')
    _fh.flush()


def pytest_configure(config):
    from cryptoparser.common.parse import ParsableBaseNoABC
    for name in ('parse_mutable', 'parse_immutable', 'parse_exact_size'):
        _wrap(ParsableBaseNoABC, name)
