#!/bin/bash
# Nothing is compiled: the framework is pure Python run by /venv/bin/python against /repo.
# The self-test proves the interface works (import path, evidence schema, oracles can fail).
set -e
cd "$(dirname "$0")"
mkdir -p evidence replay
/venv/bin/python -m mc.selftest
