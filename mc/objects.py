"""Object neighbourhoods (DESIGN §3.2): type-directed one-step variants of library objects, generic over all
classes.  Used by C01, C05, C13, C14 (and as composed seeds elsewhere).

A neighbour whose construction raises InvalidValue / InvalidDataLength / InvalidType / ValueError / TypeError is
not constructible: the library's own validators define the domain."""
import datetime
import enum
import inspect
import re

import attr

from mc import canon, classes, harvest_objects

INT_ALPHABET = (0, 1, 2 ** 7, 2 ** 8 - 1, 2 ** 8, 2 ** 16 - 1, 2 ** 16, 2 ** 24 - 1, 2 ** 24, 2 ** 32 - 1, 2 ** 32,
                2 ** 64 - 1)


AWARE_FOR_NAIVE = False      # see leaf_variants (datetime)


def _not_constructible():
    from cryptodatahub.common.exception import InvalidValue
    from cryptoparser.common.exception import InvalidDataLength, InvalidType
    return (InvalidValue, InvalidDataLength, InvalidType, ValueError, TypeError, KeyError, AttributeError,
            OverflowError, NotImplementedError)


def is_lib_object(v):
    t = type(v)
    return (t.__module__.startswith('cryptoparser.') or t.__module__.startswith('cryptodatahub.')) \
        and not isinstance(v, enum.Enum) and not isinstance(v, type)


def enum_members(e, wide):
    ms = list(e)
    if wide or len(ms) <= 10:
        return ms
    return ms[:6] + ms[-3:] + [ms[len(ms) // 2]]


def leaf_variants(v, wide=False, hint=None, text=False):
    """[(tag, new value)] for a leaf value, simplest first."""
    out = []
    if isinstance(v, bool):
        return [('bool', not v)]
    if isinstance(v, enum.Enum):
        return [('enum:%s' % m.name, m) for m in enum_members(type(v), wide) if m is not v]
    if isinstance(v, int):
        seen = {v}
        for x in (0, 1, v + 1, v - 1) + INT_ALPHABET[2:]:
            if x not in seen and x >= 0:
                seen.add(x)
                out.append(('int:%d' % x if x < 2 ** 16 else 'int:%#x' % x, x))
        return out
    if isinstance(v, (bytes, bytearray)):
        t = type(v)
        cands = [('bytes:empty', b''), ('bytes:00', b'\x00'), ('bytes:ff', b'\xff'), ('bytes:+01', bytes(v) + b'\x01'),
                 ('bytes:-1', bytes(v)[:-1]), ('bytes:len255', b'\xa5' * 255), ('bytes:len256', b'\xa5' * 256),
                 # boundaries of length fields that share their word with flag bits (SSL 2.0: 14/15 bits, TLS: 2^14)
                 ('bytes:len16384', b'\x3c' * 16384), ('bytes:len32767', b'\xc3' * 32767)]
        if wide:
            cands += [('bytes:len16383', b'\x3c' * 16383), ('bytes:len65535', b'\x5a' * 65535),
                      ('bytes:len65536', b'\x5a' * 65536)]
        seen = {bytes(v)}
        for tag, x in cands:
            if x not in seen:
                seen.add(x)
                out.append((tag, t(x)))
        return out
    if isinstance(v, str):
        if text:
            # text grammars (HTTP header values, DNS TXT policies): the declared domain of a string field is the
            # grammar's token set - no empty value, no separator characters, ASCII only
            cands = [('str:a', 'a'), ('str:upper', v.upper()), ('str:lower', v.lower()),
                     ('str:swapcase', v.swapcase()), ('str:len255', 'x' * 255), ('str:len256', 'x' * 256)]
            if v:
                # octets that str.strip() / str.split() / str.isspace() treat as white space but that no text grammar
                # here uses as a separator (only SP and HTAB are white space in RFC 7230 / 7208 / 8461): the value
                # travels unquoted and must come back unchanged
                cands += [('str:ff-end', v + '\x0c'), ('str:vt-start', '\x0b' + v), ('str:us-end', v + '\x1f')]
        else:
            cands = [('str:empty', ''), ('str:a', 'a'), ('str:upper', v.upper()), ('str:lower', v.lower()),
                     ('str:swapcase', v.swapcase()), ('str:space', (v[:1] + ' ' + v[1:]) if v else ' '),
                     ('str:nonascii', v + 'é'), ('str:len255', 'x' * 255), ('str:len256', 'x' * 256),
                     # length-prefixed strings carry any octet: the characters regular expressions, splitlines() and
                     # C strings treat specially
                     ('str:lf', v[:1] + '\n' + v[1:]), ('str:cr', v + '\r'), ('str:nul', v[:1] + '\x00' + v[1:]),
                     ('str:tab', '\t' + v)]
        seen = {v}
        for tag, x in cands:
            if x not in seen:
                seen.add(x)
                out.append((tag, x))
        return out
    if isinstance(v, datetime.datetime):
        utc = datetime.timezone.utc
        aware = v.tzinfo is not None
        base = [datetime.datetime(1970, 1, 1), v + datetime.timedelta(seconds=1), v - datetime.timedelta(seconds=1),
                datetime.datetime(2038, 1, 19, 3, 14, 7), datetime.datetime(2038, 1, 19, 3, 14, 8),
                datetime.datetime(2106, 2, 7, 6, 28, 14)]
        tags = ['dt:epoch', 'dt:+1s', 'dt:-1s', 'dt:2038-', 'dt:2038+', 'dt:2106-']
        for tag, x in zip(tags, base):
            if x.tzinfo is None and aware:
                x = x.replace(tzinfo=utc)
            out.append((tag, x))
        if aware:
            out.append(('dt:otherzone', v.astimezone(datetime.timezone(datetime.timedelta(hours=1)))))
        elif AWARE_FOR_NAIVE:
            # the same instant as the naive value (which the library reads as UTC) expressed as aware datetimes: the
            # wire form must not change.  Only layout checks switch this on: for round-trip equality an aware value
            # in a field whose parser yields naive UTC is outside the field's domain.
            au = v.replace(tzinfo=utc)
            out.append(('dt:aware-utc', au))
            out.append(('dt:aware+0530', au.astimezone(datetime.timezone(datetime.timedelta(hours=5, minutes=30)))))
            out.append(('dt:aware-0930', au.astimezone(datetime.timezone(-datetime.timedelta(hours=9, minutes=30)))))
        if v.microsecond % 1000 == 0 and v.microsecond:
            out.append(('dt:+1ms', v + datetime.timedelta(milliseconds=1)))
        return out
    if isinstance(v, datetime.timedelta):
        return [('td:0', datetime.timedelta(0)), ('td:1s', datetime.timedelta(seconds=1)),
                ('td:+1s', v + datetime.timedelta(seconds=1)), ('td:2^31s', datetime.timedelta(seconds=2 ** 31))]
    if isinstance(v, float):
        return [('float:0', 0.0), ('float:1', 1.0), ('float:0.5', 0.5), ('float:+0.25', v + 0.25)]
    if isinstance(v, (set, frozenset)) and v and all(isinstance(x, enum.Enum) for x in v):
        e = type(next(iter(v)))
        ms = list(e)
        t = type(v)
        out.append(('set:empty', t()))
        for m in enum_members(e, wide):
            out.append(('set:only:%s' % m.name, t([m])))
        # every member of a flag enumeration is a bit with a meaning of its own: each is toggled (no sampling)
        for m in (ms if len(ms) <= 64 else enum_members(e, wide)):
            out.append(('set:toggle:%s' % m.name, t(set(v) ^ {m})))
        out.append(('set:all', t(ms)))
        return out
    return out


def _init_fields(obj):
    """[(attribute name, constructor keyword)] of the values a caller passes to build obj."""
    cls = type(obj)
    if attr.has(cls) and '__init__' in cls.__dict__ and getattr(cls.__init__, '__module__', '') != cls.__module__:
        pass
    names = []
    try:
        sig = inspect.signature(cls.__init__)
    except (TypeError, ValueError):
        return names
    for p in list(sig.parameters.values())[1:]:
        if p.kind in (p.VAR_POSITIONAL, p.VAR_KEYWORD):
            continue
        for cand in (p.name, '_' + p.name):
            if hasattr(obj, cand):
                names.append((cand, p.name))
                break
        else:
            return None     # cannot reconstruct
    return names


def rebuild(obj, attr_name, new_value):
    fields = _init_fields(obj)
    if fields is None:
        raise TypeError('cannot reconstruct %s' % type(obj).__name__)
    kwargs = {}
    for a, kw in fields:
        kwargs[kw] = new_value if a == attr_name else getattr(obj, a)
    return type(obj)(**kwargs)


_FIRST_INSTANCE = {}


def _first_instance(cls):
    """A seed instance of cls from the parsed corpus / hand seeds (cached per process)."""
    if not _FIRST_INSTANCE:
        for c, objs in harvest_objects.instances_by_class().items():
            if objs:
                _FIRST_INSTANCE.setdefault(c, objs[0])
        for c, objs in hand_seeds().items():
            if objs:
                _FIRST_INSTANCE.setdefault(c, objs[0])
        _FIRST_INSTANCE.setdefault(type(None), None)
    return _FIRST_INSTANCE.get(cls)


def array_item_alphabet(arr, wide):
    """Items that may be inserted into a vector: members of the item enum, GREASE/unknown wrappers, existing items."""
    out = []
    param = getattr(arr, 'param', None)
    ic = getattr(param, 'item_class', None)
    fb = getattr(param, 'fallback_class', None)
    en = None
    if isinstance(ic, type) and hasattr(ic, 'get_enum_class'):
        en = ic.get_enum_class()
    elif isinstance(ic, type) and issubclass(ic, enum.Enum):
        en = ic
    nc = getattr(param, 'numeric_class', None)
    if isinstance(nc, type) and issubclass(nc, enum.Enum):
        en = nc
    if en is not None:
        out += [('member:%s' % m.name, m) for m in enum_members(en, wide)[:8 if not wide else None]]
    if isinstance(fb, type) and fb.__name__.startswith('TlsInvalidType'):
        one = fb.__name__.endswith('OneByte')
        out.append(('grease', fb(0x0b if one else 0x0a0a)))
        out.append(('unknown', fb(0xee if one else 0xeeee)))
    elif fb is str:
        out.append(('unknown-name', 'unknown-name@verif'))
    items = list(arr)
    if items and en is None:
        out.append(('dup-first', items[0]))
    if en is None and isinstance(ic, type):
        # vectors of parsable items: one seed instance of every class the item parser can produce (the variants of a
        # variant parser, or the item class and its concrete subclasses) that the vector does not hold yet
        held = {type(x) for x in items}
        cands = []
        if hasattr(ic, '_get_variants'):
            try:
                for group in ic._get_variants().values():
                    cands += [c for c in group if isinstance(c, type)]
            except Exception:  # noqa
                cands = []
        else:
            cands = [ic] + [c for c in classes.parsable_classes() if issubclass(c, ic) and c is not ic]
        seen = set()
        for c in cands:
            if c in held or c in seen:
                continue
            seen.add(c)
            inst = _first_instance(c)
            if inst is not None:
                out.append(('new:%s' % c.__name__, inst))
        if not wide:
            out = out[:2] + sorted(out[2:], key=lambda t: t[0])[:40]
    if not items and en is None and getattr(param, 'item_size', None):
        out += [('int:0', 0), ('int:255', 255)]
    return out


def array_neighbours(arr, wide, depth):
    cls = type(arr)
    items = list(arr)
    out = []
    for i in range(len(items)):
        out.append(('del[%d]' % i, lambda i=i: cls(items[:i] + items[i + 1:])))
    if items:
        out.append(('dup[0]', lambda: cls([items[0]] + items)))
        if len(items) > 1:
            out.append(('reverse', lambda: cls(items[::-1])))
    for tag, x in array_item_alphabet(arr, wide):
        out.append(('ins-head:%s' % tag, lambda x=x: cls([x] + items)))
        out.append(('ins-tail:%s' % tag, lambda x=x: cls(items + [x])))
    if depth > 0:
        for i, it in enumerate(items[:6]):
            if is_lib_object(it):
                for tag, mk in neighbours_lazy(it, wide, depth - 1):
                    out.append(('[%d].%s' % (i, tag), lambda i=i, mk=mk: cls(items[:i] + [mk()] + items[i + 1:])))
            elif not isinstance(it, enum.Enum):
                for tag, nv in leaf_variants(it, wide)[:6]:
                    out.append(('[%d]=%s' % (i, tag), lambda i=i, nv=nv: cls(items[:i] + [nv] + items[i + 1:])))
    return out


def optional_simplest(obj, attr_name):
    """Simplest value for a None-valued optional field, from the attrs validator's type."""
    cls = type(obj)
    if not attr.has(cls):
        return []
    for f in attr.fields(cls):
        if f.name != attr_name:
            continue
        v = f.validator
        inner = getattr(v, 'validator', None)
        t = getattr(inner, 'type', None) if inner is not None else None
        types = t if isinstance(t, tuple) else (t,) if t is not None else ()
        out = []
        for ty in types:
            if ty is bool:
                out.append(('opt:True', True))
            elif ty is int:
                out += [('opt:0', 0), ('opt:1', 1)]
            elif ty is str:
                out += [('opt:a', 'a')] if is_text_family(obj) else [('opt:empty', ''), ('opt:a', 'a')]
            elif ty is bytes:
                out += [('opt:b-empty', b''), ('opt:b-00', b'\x00')]
            elif ty is bytearray:
                out += [('opt:ba-empty', bytearray()), ('opt:ba-00', bytearray(b'\x00'))]
            elif ty is datetime.datetime:
                out.append(('opt:epoch', datetime.datetime(1970, 1, 1, tzinfo=datetime.timezone.utc)))
            elif isinstance(ty, type) and issubclass(ty, enum.Enum):
                out += [('opt:%s' % m.name, m) for m in list(ty)[:3]]
            elif isinstance(ty, type):
                inst = harvest_objects.instances_by_class().get(ty, [])
                out += [('opt:inst%d' % i, x) for i, x in enumerate(inst[:2])]
        opts = getattr(inner, 'options', None)
        if opts is not None:
            try:
                out += [('opt:%s' % getattr(m, 'name', m), m) for m in list(opts)[:3]]
            except TypeError:
                pass
        return out
    return []


def is_text_family(obj):
    m = type(obj).__module__
    return m.startswith('cryptoparser.httpx') or m.startswith('cryptoparser.dnsrec.txt') or \
        m.startswith('cryptoparser.common.field') or m.startswith('cryptoparser.common.classes')


def neighbours_lazy(obj, wide=False, depth=1):
    """[(tag, thunk)] - thunk() builds the neighbour (may raise a not-constructible error)."""
    from cryptoparser.common.base import ArrayBase
    from mc import domain
    text = is_text_family(obj)
    if domain.is_opaque_leaf(obj):
        return []
    return [(tag, mk) for tag, mk in _neighbours_lazy(obj, wide, depth, text) if not domain.excluded(obj, tag)]


def _neighbours_lazy(obj, wide, depth, text):
    from cryptoparser.common.base import ArrayBase
    if isinstance(obj, ArrayBase):
        return array_neighbours(obj, wide, depth)
    out = []
    fields = _init_fields(obj)
    if not fields:
        return out
    for a, kw in fields:
        try:
            v = getattr(obj, a)
        except AttributeError:
            continue
        if v is None:
            for tag, nv in optional_simplest(obj, a):
                out.append(('%s=%s' % (a, tag), lambda a=a, nv=nv: rebuild(obj, a, nv)))
            continue
        if is_lib_object(v):
            if not isinstance(v, ArrayBase) and _is_optional(obj, a):
                out.append(('%s=None' % a, lambda a=a: rebuild(obj, a, None)))
            if depth > 0:
                for tag, mk in neighbours_lazy(v, wide, depth - 1):
                    out.append(('%s.%s' % (a, tag), lambda a=a, mk=mk: rebuild(obj, a, mk())))
            continue
        if isinstance(v, (list, tuple)) and not isinstance(v, str):
            seq = list(v)
            t = type(v)
            for i in range(len(seq)):
                out.append(('%s.del[%d]' % (a, i), lambda a=a, i=i: rebuild(obj, a, t(seq[:i] + seq[i + 1:]))))
            if seq:
                out.append(('%s.dup' % a, lambda a=a: rebuild(obj, a, t(seq + seq[:1]))))
                if len(seq) > 1:
                    out.append(('%s.reverse' % a, lambda a=a: rebuild(obj, a, t(seq[::-1]))))
                if isinstance(seq[0], enum.Enum):
                    for m in enum_members(type(seq[0]), wide)[:6]:
                        out.append(('%s.ins:%s' % (a, m.name), lambda a=a, m=m: rebuild(obj, a, t([m] + seq))))
                elif not is_lib_object(seq[0]):
                    for tag, nv in leaf_variants(seq[0], wide, text=text)[:5]:
                        out.append(('%s[0]=%s' % (a, tag), lambda a=a, nv=nv: rebuild(obj, a, t([nv] + seq[1:]))))
            continue
        if isinstance(v, dict):
            items = list(v.items())
            t = type(v)
            for i in range(len(items)):
                out.append(('%s.delkey[%d]' % (a, i), lambda a=a, i=i: rebuild(obj, a, t(items[:i] + items[i + 1:]))))
            if len(items) > 1:
                out.append(('%s.reorder' % a, lambda a=a: rebuild(obj, a, t(items[::-1]))))
            out.append(('%s.addkey' % a, lambda a=a: rebuild(obj, a, t(items + [('x-verif', 'v')]))))
            # two keys in descending order: insertion order and sorted order of the names disagree whatever is there
            out.append(('%s.addkeys-desc' % a, lambda a=a: rebuild(obj, a, t(items + [('z-verif', 'v'), ('a-verif', 'w')]))))
            continue
        for tag, nv in leaf_variants(v, wide, text=text):
            out.append(('%s=%s' % (a, tag), lambda a=a, nv=nv: rebuild(obj, a, nv)))
        if _is_optional(obj, a):
            out.append(('%s=None' % a, lambda a=a: rebuild(obj, a, None)))
    return out


def _flag_enum_of(obj, attr_name):
    """The enumeration class a set-valued attrs field is validated against (deep_iterable of instance_of), or None."""
    cls = type(obj)
    if not attr.has(cls):
        return None
    for f in attr.fields(cls):
        if f.name == attr_name:
            mv = getattr(f.validator, 'member_validator', None)
            t = getattr(mv, 'type', None)
            if isinstance(t, type) and issubclass(t, enum.Enum):
                return t
    return None


def _is_optional(obj, attr_name):
    cls = type(obj)
    if not attr.has(cls):
        return False
    for f in attr.fields(cls):
        if f.name == attr_name:
            return isinstance(f.validator, attr.validators._OptionalValidator)  # noqa - explicit optional only
    return False


def neighbourhood(obj, depth=1, wide=False, limit=None):
    """BFS over the object graph from obj: yields (path, object) for every constructible object within `depth`
    single-field deviations (deduplicated by canonical dump).  Also returns counts through the `stats` dict."""
    stats = {'constructed': 0, 'not_constructible': 0, 'duplicates': 0}
    nc = _not_constructible()
    seen = {repr(canon.dump(obj))}
    frontier = [((), obj)]
    yield (), obj, stats
    for d in range(depth):
        nxt = []
        for path, o in frontier:
            try:
                lazy = neighbours_lazy(o, wide, 1)
            except nc:
                continue
            for tag, mk in lazy:
                try:
                    n = mk()
                except nc:
                    stats['not_constructible'] += 1
                    continue
                try:
                    k = repr(canon.dump(n))
                except Exception:  # noqa
                    continue
                if k in seen:
                    stats['duplicates'] += 1
                    continue
                seen.add(k)
                stats['constructed'] += 1
                p2 = path + (tag,)
                yield p2, n, stats
                nxt.append((p2, n))
                if limit is not None and len(seen) >= limit:
                    return
        frontier = nxt


def hand_seeds():
    """Minimal hand-written seeds for concrete classes the corpus does not reach."""
    out = {}
    nc = _not_constructible()

    def add(mk):
        try:
            o = mk()
        except nc:
            return
        out.setdefault(type(o), []).append(o)
    from cryptoparser.tls import rdp, extension as ext
    add(lambda: rdp.COTPConnectionConfirm(src_ref=1, user_data=b'', dst_ref=2))
    add(lambda: rdp.COTPConnectionConfirm(src_ref=0x1234, user_data=b'\x01\x02', dst_ref=0))
    add(lambda: rdp.COTPConnectionRequest(src_ref=1, user_data=b'Cookie: mstshash=a\r\n'))
    try:
        from cryptodatahub.tls.algorithm import SslCipherKind
        from cryptoparser.tls import record as rec, subprotocol as sp
        kinds = list(SslCipherKind)
        add(lambda: rec.SslRecord(sp.SslHandshakeClientHello(kinds[:2], session_id=b'', challenge=b'\x00' * 16)))
        add(lambda: rec.SslRecord(sp.SslHandshakeServerHello(b'c' * 32, kinds[:1], b'\x01' * 16)))
        add(lambda: rec.TlsRecord(b'fragment'))
    except ImportError:
        pass
    # certificate options with more than one member and of mixed kinds (the corpus has single-member lists only), alone
    # and inside their vectors
    try:
        from cryptoparser.ssh import key as sk
        import ipaddress
        net = ipaddress.ip_network      # the field's domain: network objects, as the parser produces them
        add(lambda: sk.SshCertExtensionSourceAddress([net('10.0.0.0/8'), net('::1/128')]))
        add(lambda: sk.SshCertExtensionSourceAddress([net('2001:db8::/32'), net('192.168.1.1/32'), net('10.0.0.0/8')]))
        add(lambda: sk.SshCertExtensionForceCommand('ls -l /tmp'))
        add(lambda: sk.SshCertCriticalOptionVector([sk.SshCertExtensionForceCommand('ls'),
                                                    sk.SshCertExtensionSourceAddress([net('10.0.0.0/8'), net('::1/128')])]))
        add(lambda: sk.SshCertExtensionVector([sk.SshCertExtensionPermitPTY(), sk.SshCertExtensionPermitUserRC(),
                                               sk.SshCertExtensionUnparsed('ext@verif.example', b'')]))
    except ImportError:
        pass
    # one Content-Security-Policy value per directive name (the corpus uses a handful of them)
    try:
        from cryptoparser.httpx import header as hh
        for m in hh.ContentSecurityPolicyDirectiveType:
            for tail in (" 'self'", '', ' allow-forms', " 'script'", ' text/html', ' https://r.example/', ' default'):
                try:
                    o = hh.HttpHeaderFieldValueContentSecurityPolicy.parse_exact_size(
                        (m.value.code + tail).encode('ascii'))
                except Exception:  # noqa
                    continue
                add(lambda o=o: o)
                break
            # ... and one with two members in its value list (white space between members is a place of its own)
            for tail in (" 'self' https://a.example", ' allow-forms allow-scripts', " 'script' 'script'",
                         ' text/html application/pdf', ' https://r.example/ https://s.example/', ' default other'):
                try:
                    o = hh.HttpHeaderFieldValueContentSecurityPolicy.parse_exact_size(
                        (m.value.code + tail).encode('ascii'))
                except Exception:  # noqa
                    continue
                add(lambda o=o: o)
                break
    except ImportError:
        pass
    if hasattr(ext, 'TlsExtensionDelegatedCredentials'):
        cls = ext.TlsExtensionDelegatedCredentials
        inst = harvest_objects.instances_by_class()
        for c, objs in inst.items():
            if c.__name__ == 'TlsSignatureAndHashAlgorithmVector':
                for o in objs[:1]:
                    add(lambda o=o: cls(o))
    return out


def constructible_with_defaults(so):
    """[(class, required kwargs, defaulted argument names)] - classes with at least one defaulted constructor
    argument; the required arguments are taken from a seed object of `so` ({class: [objects]})."""
    import inspect
    out = []
    for cls in classes.parsable_classes():
        import enum
        if issubclass(cls, enum.Enum):
            continue
        try:
            sig = inspect.signature(cls.__init__)
        except (TypeError, ValueError):
            continue
        params = [p for p in list(sig.parameters.values())[1:] if p.kind not in (p.VAR_POSITIONAL, p.VAR_KEYWORD)]
        if not any(p.default is not inspect._empty for p in params):
            continue
        req = [p.name for p in params if p.default is inspect._empty]
        seeds = so.get(cls, [])
        kwargs = None
        if not req:
            kwargs = {}
        else:
            for s in seeds:
                try:
                    kwargs = {}
                    for name in req:
                        v = getattr(s, name) if hasattr(s, name) else getattr(s, '_' + name)
                        kwargs[name] = v
                    break
                except AttributeError:
                    kwargs = None
        if kwargs is None:
            continue
        try:
            cls(**kwargs)
        except Exception:  # noqa - defaults alone are not a valid object: take None-defaulted fields from a seed
            done = False
            for s in seeds:
                kw2 = dict(kwargs)
                for p in params:
                    if p.default is None and (hasattr(s, p.name) or hasattr(s, '_' + p.name)):
                        kw2[p.name] = getattr(s, p.name) if hasattr(s, p.name) else getattr(s, '_' + p.name)
                try:
                    cls(**kw2)
                    kwargs = kw2
                    done = True
                    break
                except Exception:  # noqa
                    continue
            if not done:
                continue
        out.append((cls, kwargs, [p.name for p in params if p.default is not inspect._empty and p.name not in kwargs]))
    return out




def default_constructed(so):
    """{class: [object]} - each class built with only its required arguments (the defaults of all others): the
    object every user of the constructor gets.  Defaults that differ from one construction to the next (the
    current time, random cookies) are replaced by the value of a corpus seed, so that the seed set is the same in
    every process; a class for which that is not possible is left out."""
    import copy
    out = {}
    nc = _not_constructible()
    for cls, kwargs, defaulted in constructible_with_defaults(so):
        try:
            a = cls(**copy.deepcopy(kwargs))
            b = cls(**copy.deepcopy(kwargs))
        except nc:
            continue
        try:
            da, db = canon.dump(a), canon.dump(b)
        except Exception:  # noqa
            continue
        # defaults that are drawn once per *process* (a session id or cookie created when the class is defined) look
        # constant here but differ from process to process: every defaulted field holding >= 8 octets (bytes or a
        # vector of octets) is given the counting pattern 0, 1, 2, ... of the same type and length
        kw0 = dict(kwargs)
        for name in defaulted:
            try:
                v = getattr(a, name)
            except AttributeError:
                continue
            try:
                if isinstance(v, (bytes, bytearray)) and len(v) >= 8:
                    kw0[name] = type(v)(bytes(k % 256 for k in range(len(v))))
                elif is_lib_object(v) and hasattr(v, '__len__') and len(v) >= 8 and \
                        all(isinstance(x, int) and not isinstance(x, bool) and 0 <= x < 256 for x in v):
                    kw0[name] = type(v)([k % 256 for k in range(len(v))])
            except Exception:  # noqa
                continue
        if len(kw0) != len(kwargs):
            try:
                a = cls(**copy.deepcopy(kw0))
                b = cls(**copy.deepcopy(kw0))
                kwargs = kw0
                da, db = canon.dump(a), canon.dump(b)
            except nc:
                continue
        if da != db:
            kw = dict(kwargs)
            fixed = False
            for s in so.get(cls, []):
                for name in defaulted:
                    try:
                        va, vb = getattr(a, name), getattr(b, name)
                        if canon.dump(va) != canon.dump(vb):
                            kw[name] = getattr(s, name)
                    except AttributeError:
                        continue
                try:
                    a = cls(**copy.deepcopy(kw))
                    b = cls(**copy.deepcopy(kw))
                    if canon.dump(a) == canon.dump(b):
                        fixed = True
                        break
                except nc:
                    continue
            if not fixed:
                continue
        out[cls] = [a]
    return out


def base_seed_objects():
    """{class: [objects]} - every instance met in the parsed corpus (nested values included), every member of
    enum-typed parsable classes, hand-written seeds; restricted to concrete parsable classes."""
    inst = harvest_objects.instances_by_class()
    ok = set(classes.parsable_classes())
    out = {c: list(v) for c, v in inst.items() if c in ok}
    for c in ok:
        if issubclass(c, enum.Enum):
            out[c] = list(c)
    for c, v in hand_seeds().items():
        if c in ok:
            have = {repr(canon.dump(x)) for x in out.get(c, [])}
            for o in v:
                if repr(canon.dump(o)) not in have:
                    out.setdefault(c, []).append(o)
    return out


def seed_objects():
    """base_seed_objects() plus the default-constructed object of every class that has defaulted arguments."""
    out = base_seed_objects()
    for c, objs in default_constructed(out).items():
        have = {repr(canon.dump(x)) for x in out.get(c, [])}
        for o in objs:
            if repr(canon.dump(o)) not in have:
                out.setdefault(c, []).append(o)
    return out


# ---- two histories, one value: a change made by reconstruction versus made in place ------------------------------
def array_events(arr, wide=False):
    """[(tag, apply(array), resulting item list)] - in-place edits of a vector through its sequence interface."""
    items = list(arr)
    ev = []
    if items:
        ev.append(('del[0]', lambda a: a.__delitem__(0), items[1:]))
        ev.append(('pop', lambda a: a.pop(), items[:-1]))
        if len(items) > 1:
            ev.append(('reverse', lambda a: a.reverse(), items[::-1]))
    try:
        alphabet = array_item_alphabet(arr, wide)
    except Exception:  # noqa
        alphabet = []
    for tag, x in alphabet[:2]:
        ev.append(('append:%s' % tag, lambda a, x=x: a.append(x), items + [x]))
        ev.append(('insert0:%s' % tag, lambda a, x=x: a.insert(0, x), [x] + items))
    return ev


def inplace_variants(obj, wide=False, max_items=4, partial=False):
    """[(tag, rebuilt_thunk, inplace_thunk)].  One value reached by two histories:
    (a) rebuilt():        new objects constructed all the way up (what the neighbourhood exploration does);
    (b) inplace(warm):    a deep copy of obj, optionally *used first* (warm(copy) - e.g. composed, fingerprinted,
                          serialised), then changed in place:
         - a field of a nested library object (attribute value, item of a vector attribute, item of obj) assigned,
         - a top-level field of obj assigned,
         - a vector attribute edited through its sequence interface (append, insert, del, pop, reverse).
    Both thunks may raise a not-constructible error.  Cached sizes, memoised encodings / fingerprints and aliasing
    between a container and its items make the two differ."""
    import copy
    from cryptoparser.common.base import ArrayBase

    def fresh(warm):
        c = copy.deepcopy(obj)
        if warm is not None:
            warm(c)
        return c

    def assign_changed(target, new, nfields):
        if type(target) is not type(new):
            raise TypeError('nested object changed its class')
        for a2, _ in nfields:
            nv = getattr(new, a2)
            ov = getattr(target, a2)
            try:
                same = repr(canon.dump(nv)) == repr(canon.dump(ov))
            except Exception:  # noqa
                same = nv is ov
            if not same:
                setattr(target, a2, copy.deepcopy(nv))

    holders = []

    def add_items(prefix, arr, get_arr, up_arr):
        items = list(arr)
        cls = type(arr)
        for i, it in enumerate(items[:max_items]):
            if is_lib_object(it) and attr.has(type(it)) and not isinstance(it, (enum.Enum, ArrayBase)):
                holders.append(('%s[%d]' % (prefix, i), lambda c, i=i: list(get_arr(c))[i], it,
                                lambda new, i=i: up_arr(cls(items[:i] + [new] + items[i + 1:]))))

    out = []
    fields = None if isinstance(obj, ArrayBase) else (_init_fields(obj) or [])
    if isinstance(obj, ArrayBase):
        add_items('', obj, lambda c: c, lambda new_arr: new_arr)
        cls0 = type(obj)
        for tag, apply, new_items in array_events(obj, wide):
            out.append(('.%s' % tag, lambda new_items=new_items: cls0(new_items),
                        lambda warm=None, apply=apply: (lambda c: (apply(c), c)[1])(fresh(warm))))
    else:
        for a, kw in fields:
            try:
                v = getattr(obj, a)
            except AttributeError:
                continue
            if isinstance(v, ArrayBase):
                add_items(a, v, lambda c, a=a: getattr(c, a), lambda new_arr, a=a: rebuild(obj, a, new_arr))
                vcls = type(v)
                for tag, apply, new_items in array_events(v, wide):
                    out.append(('%s.%s' % (a, tag),
                                lambda a=a, vcls=vcls, new_items=new_items: rebuild(obj, a, vcls(new_items)),
                                lambda warm=None, a=a, apply=apply: (lambda c: (apply(getattr(c, a)), c)[1])(fresh(warm))))
            elif isinstance(v, (list, tuple)) and v and is_lib_object(v[0]):
                seq = list(v)
                t = type(v)
                for i, it in enumerate(seq[:max_items]):
                    if attr.has(type(it)) and not isinstance(it, (enum.Enum, ArrayBase)):
                        holders.append(('%s[%d]' % (a, i), lambda c, a=a, i=i: getattr(c, a)[i], it,
                                        lambda new, a=a, i=i, seq=seq, t=t: rebuild(obj, a, t(seq[:i] + [new] + seq[i + 1:]))))
            elif is_lib_object(v) and attr.has(type(v)) and not isinstance(v, enum.Enum):
                holders.append((a, lambda c, a=a: getattr(c, a), v, lambda new, a=a: rebuild(obj, a, new)))
        # top-level assignment of one field
        if fields and attr.has(type(obj)):
            try:
                lazy0 = neighbours_lazy(obj, wide, 0)
            except _not_constructible():
                lazy0 = []
            for tag, mk in lazy0:
                def inplace_top(warm=None, mk=mk):
                    new = mk()
                    c = fresh(warm)
                    assign_changed(c, new, fields)
                    return c
                out.append(('=%s' % tag, mk, inplace_top))
                fname = re.split(r'[=.\[]', tag, 1)[0]
                if partial and any(a == fname for a, _ in fields):
                    # the one field alone is assigned: what a constructor would have completed (a dependent default)
                    # or refused stays as it was - a state only an in-place edit reaches
                    def inplace_only(warm=None, mk=mk, fname=fname):
                        new = mk()
                        c = fresh(warm)
                        setattr(c, fname, copy.deepcopy(getattr(new, fname)))
                        return c
                    out.append(('=%s!only' % tag, mk, inplace_only))
            if partial:
                # an empty flag set: every member the field's validator names is switched on in place
                for a, kw in fields:
                    v = getattr(obj, a, None)
                    e = _flag_enum_of(obj, a) if isinstance(v, (set, frozenset)) and not v else None
                    for m in (list(e) if e is not None else []):
                        def rebuilt_flag(a=a, m=m, v=v):
                            return rebuild(obj, a, type(v)([m]))

                        def inplace_flag(warm=None, a=a, m=m, v=v):
                            c = fresh(warm)
                            setattr(c, a, type(v)([m]))
                            return c
                        out.append(('=%s=set:toggle:%s!only' % (a, m.name), rebuilt_flag, inplace_flag))
    for label, get, nested, up in holders:
        nfields = _init_fields(nested)
        if not nfields:
            continue
        try:
            lazy = neighbours_lazy(nested, wide, 0)
        except _not_constructible():
            continue
        for tag, mk in lazy:
            def rebuilt(mk=mk, up=up):
                return up(mk())

            def inplace(warm=None, mk=mk, get=get, nfields=nfields):
                new = mk()
                c = fresh(warm)
                assign_changed(get(c), new, nfields)
                return c
            out.append(('%s.%s' % (label, tag), rebuilt, inplace))
    return out


def value_dump(o, _depth=0):
    """Canonical form of the *value* of an object: the constructor arguments, recursively (what a caller would pass
    to build an equal object).  Unlike canon.dump it does not show private attributes, in which an implementation
    is free to cache answers."""
    from cryptoparser.common.base import ArrayBase
    if _depth > 12:
        return ('deep',)
    if isinstance(o, enum.Enum):
        return ('enum', type(o).__name__, o.name)
    if isinstance(o, ArrayBase):
        return ('array', type(o).__name__) + tuple(value_dump(x, _depth + 1) for x in list(o))
    if is_lib_object(o) and not domain_opaque(o):
        fields = _init_fields(o)
        if fields:
            out = [type(o).__name__]
            for a, kw in fields:
                try:
                    out.append((kw, value_dump(getattr(o, a), _depth + 1)))
                except AttributeError:
                    out.append((kw, ('missing',)))
            return tuple(out)
        return canon.dump(o, eq=True, tz=True)
    if isinstance(o, (list, tuple)):
        return ('seq',) + tuple(value_dump(x, _depth + 1) for x in o)
    if isinstance(o, dict):
        items = [(value_dump(k, _depth + 1), value_dump(v, _depth + 1)) for k, v in o.items()]
        return (('odict',) + tuple(items)) if type(o).__name__ == 'OrderedDict' else \
            (('dict',) + tuple(sorted(items, key=repr)))
    if isinstance(o, (set, frozenset)):
        return ('set',) + tuple(sorted((value_dump(x, _depth + 1) for x in o), key=repr))
    return canon.dump(o, eq=True, tz=True)


def domain_opaque(o):
    from mc import domain
    return domain.is_opaque_leaf(o)
