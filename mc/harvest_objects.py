"""Objects obtained by parsing every accepted corpus input; walk of the object graph (attrs fields, sequences)."""
import enum

import attr

from mc import classes

_CACHE = {}


def parsed_corpus():
    """[(qualified class name, bytes, object)] for every accepted corpus row that still parses."""
    if 'parsed' in _CACHE:
        return _CACHE['parsed']
    out = []
    for qn, b, outcome in classes.corpus():
        if outcome != 'ok':
            continue
        try:
            cls = classes.class_by_name(qn)
            obj, n = cls.parse_immutable(b)
        except Exception:  # noqa
            continue
        out.append((qn, b, obj))
    _CACHE['parsed'] = out
    return out


def walk(obj, depth=0, seen=None):
    """Yields obj and every nested value reachable through attrs fields, __dict__ and containers."""
    if seen is None:
        seen = set()
    if depth > 12 or id(obj) in seen:
        return
    if obj is None or isinstance(obj, (bool, int, float, str, bytes, bytearray, enum.Enum, type)):
        return
    seen.add(id(obj))
    yield obj
    from cryptoparser.common.base import ArrayBase
    if isinstance(obj, ArrayBase):
        for x in list(obj):
            for y in walk(x, depth + 1, seen):
                yield y
        return
    if isinstance(obj, (list, tuple, set, frozenset)):
        for x in obj:
            for y in walk(x, depth + 1, seen):
                yield y
        return
    if isinstance(obj, dict):
        for k, v in obj.items():
            for y in walk(v, depth + 1, seen):
                yield y
        return
    if attr.has(type(obj)):
        for f in attr.fields(type(obj)):
            try:
                v = getattr(obj, f.name)
            except AttributeError:
                continue
            for y in walk(v, depth + 1, seen):
                yield y
    d = getattr(obj, '__dict__', None)
    if d:
        for v in list(d.values()):
            for y in walk(v, depth + 1, seen):
                yield y


def instances_by_class():
    """{class: [instances]} over the whole parsed corpus (nested values included)."""
    if 'inst' in _CACHE:
        return _CACHE['inst']
    from mc import canon
    inst = {}
    seen_dump = set()
    for qn, b, obj in parsed_corpus():
        for x in walk(obj):
            t = type(x)
            if not t.__module__.startswith('cryptoparser.'):
                continue
            try:
                key = (t, canon.dump(x))
            except Exception:  # noqa
                continue
            if key in seen_dump:
                continue
            seen_dump.add(key)
            inst.setdefault(t, []).append(x)
    _CACHE['inst'] = inst
    return inst
