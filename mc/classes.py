"""Reflection over cryptoparser: concrete parsable classes, corpus, helpers."""
import enum
import importlib
import inspect
import json
import os
import pkgutil

from mc import core

_CACHE = {}


def all_modules():
    if 'mods' in _CACHE:
        return _CACHE['mods']
    cp = core.import_repo()
    mods = []
    for m in pkgutil.walk_packages(cp.__path__, 'cryptoparser.'):
        mods.append(importlib.import_module(m.name))
    _CACHE['mods'] = mods
    return mods


def _is_stub(func):
    func = getattr(func, '__func__', func)
    code = getattr(func, '__code__', None)
    if code is None:
        return True
    return set(code.co_names) <= {'NotImplementedError'} and len(code.co_code) <= 24


def qualname(cls):
    return '%s.%s' % (cls.__module__, cls.__qualname__)


def _discover():
    if 'classes' in _CACHE:
        return
    from cryptoparser.common.parse import ParsableBaseNoABC
    from cryptoparser.common.base import StringEnumParsableBase
    concrete, parse_only = {}, {}
    for mod in all_modules():
        for name, obj in vars(mod).items():
            if not inspect.isclass(obj) or not obj.__module__.startswith('cryptoparser.'):
                continue
            if not issubclass(obj, ParsableBaseNoABC):
                continue
            if _is_stub(getattr(obj, '_parse', None)):
                continue
            if issubclass(obj, StringEnumParsableBase) and not issubclass(obj, enum.Enum):
                continue    # mix-in without members: not a parsable class of its own
            if issubclass(obj, enum.Enum) and not len(obj):
                continue
            abstract = set(getattr(obj, '__abstractmethods__', ()))
            if not abstract:
                concrete[qualname(obj)] = obj
            elif abstract <= {'compose'}:
                parse_only[qualname(obj)] = obj     # code-point factories: parse entry points only
    # pure base classes: never parsed directly by the suite and only meaningful through their library
    # subclasses (calling them is a programming error independent of the input) - excluded, and reported
    touched = {q for q, _, _ in corpus()}
    base_only = sorted(q for q, c in concrete.items() if q not in touched and c.__subclasses__())
    for q in base_only:
        del concrete[q]
    _CACHE['base_only'] = base_only
    _CACHE['classes'] = [concrete[k] for k in sorted(concrete)]
    _CACHE['parse_only'] = [parse_only[k] for k in sorted(parse_only)]


def parsable_classes():
    """Every concrete (parse + compose) class of cryptoparser.* (sorted by qualified name)."""
    _discover()
    return _CACHE['classes']


def parse_entry_classes():
    """Concrete classes plus the abstract-compose code-point factories (parse entry points only)."""
    _discover()
    return sorted(_CACHE['classes'] + _CACHE['parse_only'], key=qualname)


def base_only_classes():
    _discover()
    return _CACHE['base_only']


def class_by_name(qn):
    mod, _, name = qn.rpartition('.')
    m = importlib.import_module(mod)
    obj = m
    for part in name.split('.'):
        obj = getattr(obj, part)
    return obj


def corpus():
    """[(qualified class name, bytes, outcome)] harvested from the repository's own test-suite."""
    if 'corpus' in _CACHE:
        return _CACHE['corpus']
    rows = []
    with open(os.path.join(core.VERIF, 'corpus', 'corpus.jsonl')) as fh:
        for line in fh:
            r = json.loads(line)
            rows.append(('%s.%s' % (r['module'], r['cls']), bytes.fromhex(r['hex']), r['outcome']))
    _CACHE['corpus'] = rows
    return rows


def documented_errors():
    from cryptodatahub.common.exception import InvalidValue
    from cryptoparser.common.exception import InvalidDataLength, InvalidType
    return (InvalidDataLength, InvalidValue, InvalidType)


def family(cls_or_qn):
    qn = cls_or_qn if isinstance(cls_or_qn, str) else qualname(cls_or_qn)
    parts = qn.split('.')
    fam = parts[1]
    if fam == 'tls' and parts[2] in ('mysql', 'rdp', 'ldap', 'openvpn', 'postgresql'):
        return parts[2]
    return fam
