"""Record alphabets per stream layer (C04; also used as framing seeds elsewhere).

Every record is built by the library's own compose() from a small object (the property speaks of *composed*
records), plus the framing-class seeds of the harvested corpus that are accepted in full.  The SSL 2.0
3-byte-header form, which the composer never emits, is built by hand from the draft's layout."""
from mc import classes


def _ok_full(cls, b):
    try:
        o, n = cls.parse_immutable(b)
    except Exception:  # noqa
        return False
    return n == len(b)


def _corpus_records(qn, limit=4):
    cls = classes.class_by_name(qn)
    out = []
    for q, b, o in classes.corpus():
        if q == qn and o == 'ok' and b not in out and _ok_full(cls, b):
            out.append(b)
    out.sort(key=len)
    return out[:limit]


BUILD_FAILURES = []      # (what, exception type) - records this harness could not build on the tree under test


def _recs(label, thunks):
    """Builds each record with the library's composer; a record that cannot be built on the tree under test is left
    out (and remembered) instead of stopping every check that uses the layers."""
    out = []
    for k, t in enumerate(thunks):
        try:
            out.append(bytes(t()))
        except Exception as e:  # noqa
            BUILD_FAILURES.append(('%s[%d]' % (label, k), type(e).__name__))
    return out


def _misc_ref():
    from mc.ref import misc_ref
    return misc_ref


def layers():
    """-> list of (layer name, class, [record bytes])"""
    from cryptodatahub.tls.version import TlsVersion
    from cryptodatahub.tls.algorithm import SslCipherKind
    from cryptoparser.tls.version import TlsProtocolVersion
    from cryptoparser.tls.record import TlsRecord, SslRecord
    from cryptoparser.tls import subprotocol as sp
    from cryptoparser.ssh import record as sr, subprotocol as ss
    from cryptoparser.tls.mysql import MySQLRecord
    from cryptoparser.tls.rdp import TPKT
    from cryptoparser.tls.openvpn import OpenVpnPacketWrapperTcp
    from cryptoparser.tls import ldap, postgresql

    out = []
    v12 = TlsProtocolVersion(TlsVersion.TLS1_2)
    v10 = TlsProtocolVersion(TlsVersion.TLS1)
    out.append(('tls_record', TlsRecord, _recs('tls_record', [
        lambda: TlsRecord(b'', v12, sp.TlsContentType.HANDSHAKE).compose(),
        lambda: TlsRecord(b'\x01', v10, sp.TlsContentType.CHANGE_CIPHER_SPEC).compose(),
        lambda: TlsRecord(b'\x02\x28', v12, sp.TlsContentType.ALERT).compose(),
        lambda: TlsRecord(b'a' * 256, v12, sp.TlsContentType.APPLICATION_DATA).compose(),
        lambda: TlsRecord(bytes(sp.TlsHandshakeServerHelloDone().compose()), v12, sp.TlsContentType.HANDSHAKE).compose(),
    ])))

    kinds = list(SslCipherKind)
    ssl2 = _recs('ssl2_record', [
        lambda: SslRecord(sp.SslErrorMessage(sp.SslErrorType.NO_CIPHER_ERROR)).compose(),
        lambda: SslRecord(sp.SslHandshakeClientHello(kinds[:2], session_id=b'', challenge=b'\x00' * 16)).compose(),
        lambda: SslRecord(sp.SslHandshakeServerHello(b'c' * 256, kinds[:1], b'\x01' * 16)).compose(),
    ])
    # the 3-byte-header forms (never emitted by the composer) are laid out by hand: record type 0 = error, NO_CIPHER
    body = b'\x00\x00\x01'
    pad = 5
    three = bytes(((len(body) + pad) >> 8 & 0x3f, (len(body) + pad) & 0xff, pad)) + body + b'\x00' * pad
    three0 = bytes((len(body) >> 8 & 0x3f, len(body) & 0xff, 0)) + body
    out.append(('ssl2_record', SslRecord, ssl2 + [three, three0]))

    kex = None
    for b in _corpus_records('cryptoparser.ssh.subprotocol.SshKeyExchangeInit', 1):
        try:
            kex = ss.SshKeyExchangeInit.parse_exact_size(b)
        except Exception as e:  # noqa
            BUILD_FAILURES.append(('kexinit seed', type(e).__name__))
    init_msgs = [lambda: ss.SshUnimplementedMessage(1),
                 lambda: ss.SshDisconnectMessage(ss.SshReasonCode.BY_APPLICATION, 'bye', 'en'),
                 lambda: ss.SshDisconnectMessage(ss.SshReasonCode.PROTOCOL_ERROR, 'x' * 300, '')]
    if kex is not None:
        init_msgs.append(lambda: kex)
    out.append(('ssh_init', sr.SshRecordInit,
                _recs('ssh_init', [lambda m=m: sr.SshRecordInit(m()).compose() for m in init_msgs])))
    dh_msgs = [lambda: ss.SshNewKeys(), lambda: ss.SshDHKeyExchangeInit(b'\x01' * 7),
               lambda: ss.SshDHKeyExchangeInit(b'\x02' * 260), lambda: ss.SshUnimplementedMessage(2)]
    out.append(('ssh_kexdh', sr.SshRecordKexDH,
                _recs('ssh_kexdh', [lambda m=m: sr.SshRecordKexDH(m()).compose() for m in dh_msgs])))
    gex_msgs = [lambda: ss.SshNewKeys(), lambda: ss.SshDHGroupExchangeRequest(1024, 2048, 8192),
                lambda: ss.SshDHGroupExchangeGroup(b'\x00\xff' * 130, b'\x02'),
                lambda: ss.SshDHGroupExchangeInit(b'\x03' * 9)]
    out.append(('ssh_kexdhgroup', sr.SshRecordKexDHGroup,
                _recs('ssh_kexdhgroup', [lambda m=m: sr.SshRecordKexDHGroup(m()).compose() for m in gex_msgs])))
    banners = [b'SSH-2.0-x\r\n', b'SSH-2.0-OpenSSH_8.9 c\r\n', b'SSH-1.99-sw\n', b'SSH-2.0-dropbear_2019.78\r\n',
               b'SSH-2.0-a b c d\r\n']
    out.append(('ssh_banner', ss.SshProtocolMessage, [b for b in banners if _ok_full(ss.SshProtocolMessage, b)]))

    out.append(('mysql_record', MySQLRecord, _recs('mysql_record', [
        lambda: MySQLRecord(0, b'').compose(), lambda: MySQLRecord(1, b'\x0a').compose(),
        lambda: MySQLRecord(255, b'm' * 256).compose(), lambda: MySQLRecord(2, b'\x00' * 5).compose()])))
    out.append(('tpkt', TPKT, _recs('tpkt', [
        lambda: TPKT(3, b'').compose(), lambda: TPKT(3, b'\x01').compose(), lambda: TPKT(3, b't' * 300).compose(),
        lambda: TPKT(3, b'\x06\xe0\x00\x00\x00\x00\x00').compose()])))
    out.append(('openvpn_tcp', OpenVpnPacketWrapperTcp, _recs('openvpn_tcp', [
        lambda: OpenVpnPacketWrapperTcp(b'').compose(), lambda: OpenVpnPacketWrapperTcp(b'\x38').compose(),
        lambda: OpenVpnPacketWrapperTcp(b'o' * 257).compose(), lambda: OpenVpnPacketWrapperTcp(b'\x00\x01').compose()])))
    out.append(('ldap_request', ldap.LDAPExtendedRequestStartTLS,
                _recs('ldap_request', [lambda: ldap.LDAPExtendedRequestStartTLS().compose()])))
    out.append(('ldap_response', ldap.LDAPExtendedResponseStartTLS,
                _recs('ldap_response', [lambda c=c: ldap.LDAPExtendedResponseStartTLS(c).compose()
                                        for c in (ldap.LDAPResultCode.SUCCESS, ldap.LDAPResultCode.PROTOCOL_ERROR,
                                                  ldap.LDAPResultCode.OTHER)] + [
                    # frames the composer never writes: a long-form outer length (diagnosticMessage of 200 octets) and
                    # the four-octet BER lengths Active Directory uses (reference-encoded, mc/ref/misc_ref.py)
                    lambda: _misc_ref().ldap_starttls_response(0, 1, b'', b'd' * 200),
                    lambda: _misc_ref().ldap_starttls_response(0, 1, b'', b'', {'msg': 4, 'op': 4})])))
    out.append(('postgresql_sslrequest', postgresql.SslRequest,
                _recs('postgresql_sslrequest', [lambda: postgresql.SslRequest().compose()])))
    out.append(('postgresql_sync', postgresql.Sync, _recs('postgresql_sync', [lambda: postgresql.Sync().compose()])))

    hs = handshake_messages()
    out.append(('tls_handshake_stream', sp.TlsHandshakeMessageVariant, [h for _, h in hs]))

    # corpus seeds of each framing class that are accepted in full
    extra = []
    for name, cls, recs in out:
        qn = classes.qualname(cls)
        for b in _corpus_records(qn, 6):
            if b not in recs:
                extra.append((name, b))
    res = []
    for name, cls, recs in out:
        res.append((name, cls, recs, [b for n2, b in extra if n2 == name]))
    return res


def handshake_messages():
    """[(name, bytes)] short composed handshake messages for the handshake-over-records exploration."""
    from cryptodatahub.tls.algorithm import TlsCipherSuite
    from cryptoparser.tls import subprotocol as sp
    import datetime
    rnd = sp.TlsHandshakeHelloRandom(datetime.datetime(2020, 1, 1), sp.TlsHandshakeHelloRandomBytes(bytes(range(28))))
    suites = list(TlsCipherSuite)[:2]
    ch = sp.TlsHandshakeClientHello(suites, random=rnd, session_id=sp.TlsSessionIdVector(()),
                                    empty_renegotiation_info_scsv=False)
    sh = sp.TlsHandshakeServerHello(random=rnd, session_id=sp.TlsSessionIdVector((1, 2, 3)), cipher_suite=suites[0])
    cert = sp.TlsHandshakeCertificate(sp.TlsCertificates([sp.TlsCertificate(b'\x30' * 260)]))
    done = sp.TlsHandshakeServerHelloDone()
    creq = sp.TlsHandshakeCertificateRequest([sp.TlsClientCertificateType.RSA_SIGN], [])
    msgs = [('client_hello', ch), ('server_hello', sh), ('certificate', cert), ('server_hello_done', done),
            ('certificate_request', creq)]
    out = []
    for n, m in msgs:
        try:
            out.append((n, bytes(m.compose())))
        except Exception as e:  # noqa
            BUILD_FAILURES.append(('handshake:' + n, type(e).__name__))
    return out
