"""C08 - DNSSEC and mail-related DNS record data follow the RFCs, key tag included.

Wire forms are built by dns_ref from spec-level fields; oracles: the library parses them, re-composes them
bit-exactly (no dropped key bytes), reports key_tag == RFC 4034 Appendix B over the RDATA handed to the parser;
object side: compose == dns_ref encoding of the public fields.
"""
import datetime
import itertools

from mc import canon, classes, core, objects
from mc.ref import dns_ref as ref


def algs():
    from cryptodatahub.dnsrec.algorithm import DnsSecAlgorithm
    return DnsSecAlgorithm


def flag_word(flags):
    w = 0
    for f in flags:
        w |= int(f)
    return w


CURVE_B = {
    'ECDSAP256SHA256': (2 ** 256 - 2 ** 224 + 2 ** 192 + 2 ** 96 - 1,
                        0x5ac635d8aa3a93e7b3ebbd55769886bc651d06b0cc53b0f63bce3c3e27d2604b),
    'ECDSAP384SHA384': (2 ** 384 - 2 ** 128 - 2 ** 96 + 2 ** 32 - 1,
                        0xb3312fa7e23ee7e4988e056be3f82d19181d9c6efe8141120314088f5013875ac656398d8a2ed19d2a85c8edd3ec2aef),
}


def check_dnskey_wire(acc, rdata, label, extra=None):
    from cryptoparser.dnsrec.record import DnsRecordDnskey
    acc.counters['transitions'] = acc.counters.get('transitions', 0) + 2
    w = {'kind': 'dnskey', 'label': label, 'rdata': rdata[:300], 'rdata_len': len(rdata)}
    if extra:
        w.update(extra)
    try:
        o = DnsRecordDnskey.parse_exact_size(rdata)
    except classes.documented_errors() as e:
        if extra and extra.get('not_a_curve_point'):
            # a coordinate pair with a zero that is not on the curve is outside RFC 6605's domain ("Q ... represents
            # the uncompressed form of a curve point"); rejecting it with a documented error is allowed
            acc.count('zero_coordinate_non_points_rejected')
            return
        acc.violation('dnskey:rejected:%s:%s' % (label, core.ename(e)), 'conformant DNSKEY RDATA (%s) rejected: %s'
                      % (label, str(e)[:60]), w)
        return
    except Exception:  # noqa - undocumented exception type: a C02 finding (e.g. coordinates that are not on the curve)
        acc.count('rejected_with_undocumented_exception')
        return
    exp_tag = ref.key_tag(rdata, rdata[3])
    try:
        tag = o.key_tag
    except Exception as e:  # noqa
        acc.violation('dnskey:key_tag_raises:%s:%s' % (label, core.ename(e)), 'key_tag raises %s' % core.ename(e), w)
        tag = None
    reserved_bits_set = bool(int.from_bytes(rdata[:2], 'big') & ~(0x0001 | 0x0080 | 0x0100))
    if tag is not None and tag != exp_tag and not reserved_bits_set:
        acc.violation('dnskey:key_tag:%s:len%%2=%d' % (label, len(rdata) % 2), 'key_tag %d, RFC 4034 Appendix B over the '
                      'RDATA gives %d (RDATA of %d bytes)' % (tag, exp_tag, len(rdata)), w)
    known_bits = 0x0001 | 0x0080 | 0x0100
    try:
        back = bytes(o.compose())
    except Exception as e:  # noqa
        acc.violation('dnskey:compose_raises:%s:%s' % (label, core.ename(e)), 'parsed DNSKEY cannot be composed', w)
        return
    exp = (int.from_bytes(rdata[:2], 'big') & known_bits).to_bytes(2, 'big') + rdata[2:]
    if back != exp:
        i = next((k for k in range(min(len(back), len(exp))) if back[k] != exp[k]), min(len(back), len(exp)))
        acc.violation('dnskey:not_reproduced:%s' % label, 'DNSKEY RDATA is not reproduced (differs at offset %d, %d vs %d '
                      'bytes)' % (i, len(back), len(exp)), w)
    if flag_word(o.flags) != int.from_bytes(rdata[:2], 'big') & known_bits:
        acc.violation('dnskey:flags', 'flags %#x parsed as %#x' % (int.from_bytes(rdata[:2], 'big'), flag_word(o.flags)), w)
    acc.state(core.h64('dnskey', rdata))


def _dnskey_worker(args):
    which, part, parts = args
    acc = core.Acc()
    A = algs()
    n = 0

    def take():
        nonlocal n
        n += 1
        return n % parts == part
    if which == 'rsa':
        rsa_algs = [a.value.code for a in A if a.name.startswith('RSA')]
        exps = {}
        for elen in (1, 2, 3, 4, 255, 256, 300):
            exps[elen] = (1 << (8 * elen - 1)) | 1
        for alg in rsa_algs:
            for elen, e in exps.items():
                for bits in (511, 512, 513, 1023, 1024, 1025, 2048, 4096):
                    for top in (0x01, 0x7f, 0x80, 0xff):
                        if not take():
                            continue
                        nbytes = (bits + 7) // 8
                        # modulus with the requested top byte pattern and bit length
                        m = (1 << (bits - 1)) | 1
                        if top in (0x7f, 0xff) and bits % 8 == 0:
                            m |= (top << (bits - 8))
                        rdata = ref.dnskey(0x0101, 3, alg, ref.key_rsa(e, m))
                        check_dnskey_wire(acc, rdata, 'rsa', {'alg': alg, 'exp_len': elen, 'mod_bits': bits})
    elif which == 'flags':
        key = ref.key_rsa(65537, (1 << 1023) | 1)
        for word in range(part, 65536, parts):
            check_dnskey_wire(acc, ref.dnskey(word, 3, 8, key), 'flags')
    elif which == 'other':
        by = {a.name: a.value.code for a in A}
        for t in range(0, 9):
            size = 64 + 8 * t
            for fill in ((1 << (8 * size)) - 1, (1 << (8 * size - 1)) | 1):
                if take():
                    rdata = ref.dnskey(0x0100, 3, by['DSA'], ref.key_dsa(t, (1 << 159) | 1, fill, 2, fill - 2))
                    check_dnskey_wire(acc, rdata, 'dsa', {'t': t})
        for nm, size in (('ECDSAP256SHA256', 32), ('ECDSAP384SHA384', 48), ('ECCGOST', 32)):
            if nm not in by:
                continue
            for x, y in itertools.product((0, 1, (1 << (8 * size)) - 1, 1 << (8 * size - 1), 1 << 8), repeat=2):
                if take():
                    check_dnskey_wire(acc, ref.dnskey(0x0101, 3, by[nm], ref.key_ecdsa(x, y, size)), nm.lower(),
                                      {'not_a_curve_point': True} if 0 in (x, y) else None)
            # both coordinates starting with one / two zero octets (fixed width must survive), and the two genuine
            # curve points with x = 0: (0, +-sqrt(b)) - FIPS 186-4 D.1.2.3 / D.1.2.4 parameters, p = 3 mod 4
            top = 1 << (8 * (size - 1) - 1)
            for x, y in ((top | 5, top | 7), (top >> 8 | 5, top | 7), (top | 5, top >> 8 | 7), (top >> 8, top >> 16)):
                if take():
                    check_dnskey_wire(acc, ref.dnskey(0x0101, 3, by[nm], ref.key_ecdsa(x, y, size)), nm.lower())
            if nm in CURVE_B:
                prime, b = CURVE_B[nm]
                root = pow(b, (prime + 1) // 4, prime)
                assert root * root % prime == b
                for y in (root, prime - root):
                    if take():
                        check_dnskey_wire(acc, ref.dnskey(0x0101, 3, by[nm], ref.key_ecdsa(0, y, size)),
                                          nm.lower() + ':x=0')
        for nm, size in (('ED25519', 32), ('ED448', 57)):
            if nm not in by:
                continue
            for pat in (b'\x00' * size, b'\xff' * size, b'\x00' + b'\x5a' * (size - 1), b'\x5a' * (size - 1) + b'\x00'):
                if take():
                    check_dnskey_wire(acc, ref.dnskey(0x0100, 3, by[nm], pat), nm.lower())
    if part == 0:
        acc.sample({'kind': 'dnskey', 'family': which}, 1)
    return acc.result()


def _other_records_worker(_):
    acc = core.Acc()
    from cryptoparser.dnsrec import record as rec
    from cryptodatahub.dnsrec.algorithm import DnsRrType, DnsSecDigestType
    A = algs()
    utc = datetime.timezone.utc

    def rt(cls, wire, label, fields_check):
        acc.counters['transitions'] = acc.counters.get('transitions', 0) + 2
        w = {'kind': label, 'rdata': wire[:300]}
        try:
            o = cls.parse_exact_size(wire)
        except Exception as e:  # noqa
            acc.violation('%s:rejected:%s' % (label, core.ename(e)), 'conformant %s RDATA rejected: %s'
                          % (label, str(e)[:60]), w)
            return
        problem = fields_check(o)
        if problem:
            acc.violation('%s:fields:%s' % (label, problem), '%s field %s not recovered' % (label, problem), w)
        try:
            back = bytes(o.compose())
            if back != wire:
                acc.violation('%s:not_reproduced' % label, '%s RDATA is not reproduced' % label, w)
        except Exception as e:  # noqa
            acc.violation('%s:compose_raises:%s' % (label, core.ename(e)), 'parsed %s cannot be composed' % label, w)
        acc.state(core.h64(label, wire))
    # DS: every algorithm x digest type x digest length
    for a in A:
        for dt in DnsSecDigestType:
            for dl in (0, 20, 32, 48):
                wire = ref.ds(0xabcd, a.value.code, dt.value.code, b'\xd1' * dl)
                rt(rec.DnsRecordDs, wire, 'ds',
                   lambda o, a=a, dt=dt, dl=dl: None if (o.key_tag == 0xabcd and o.algorithm is a and o.digest_type is dt
                                                         and bytes(o.digest) == b'\xd1' * dl) else 'value')
    # RRSIG
    names_ = [[], ['a'], ['a', 'example', 'com'], ['a' * 63, 'b'], ['xn--sland-ysa', 'example']]
    types = [t.value.code for t in DnsRrType] + [0xff00, 0xfffe]
    stamps = (0, 1, 2 ** 31 - 1, 2 ** 31, 2 ** 32 - 2, 2 ** 32 - 1)
    for t in types:
        wire = ref.rrsig(t, 8, 2, 3600, 1700000000, 1600000000, 0x1234, ['example', 'com'], b's' * 64)
        rt(rec.DnsRecordRrsig, wire, 'rrsig', lambda o, t=t: None if getattr(o.type_covered, 'value', None) is not None and
           (getattr(o.type_covered.value, 'code', o.type_covered.value) == t) else 'type_covered')
    for lab in (0, 1, 255):
        for ttl in (0, 1, 2 ** 31 - 1, 2 ** 31, 2 ** 32 - 1):
            wire = ref.rrsig(1, 8, lab, ttl, 1700000000, 1600000000, 0, ['a'], b's' * 8)
            rt(rec.DnsRecordRrsig, wire, 'rrsig', lambda o, lab=lab, ttl=ttl: None if (o.labels == lab and o.original_ttl == ttl)
               else 'labels_ttl')
    for e_ in stamps:
        for i_ in stamps:
            wire = ref.rrsig(1, 8, 2, 300, e_, i_, 0xffff, ['example', 'com'], b's' * 32)

            def chk(o, e_=e_, i_=i_):
                ep = datetime.datetime(1970, 1, 1, tzinfo=utc)
                try:
                    ok = int((o.signature_expiration - ep).total_seconds()) == e_ and \
                        int((o.signature_inception - ep).total_seconds()) == i_
                except Exception:  # noqa
                    ok = False
                return None if ok else 'timestamps'
            rt(rec.DnsRecordRrsig, wire, 'rrsig_timestamp' if 2 ** 32 - 1 in (e_, i_) else 'rrsig', chk)
    for nm in names_:
        for sig in (b'', b's', b's' * 256):
            wire = ref.rrsig(46, 13, len(nm), 60, 1700000000, 1600000000, 7, nm, sig)
            short = len(wire) < 24
            rt(rec.DnsRecordRrsig, wire, 'rrsig_short' if short else 'rrsig',
               lambda o, nm=nm, sig=sig: None if (list(o.signers_name.labels) == [x.encode().decode('idna') if x.startswith('xn--') else x for x in nm]
                                                  and bytes(o.signature) == sig) else 'name_signature')
    # MX / names
    label_alph = ['a', 'a' * 63, 'xn--sland-ysa', 'MiXed']
    for n in range(0, 4):
        for combo in itertools.product(label_alph, repeat=n):
            for pref in (0, 10, 65535):
                wire = ref.mx(pref, list(combo))
                rt(rec.DnsRecordMx, wire, 'mx', lambda o, pref=pref: None if o.priority == pref else 'preference')
            wire = ref.name(list(combo))
            rt(rec.DnsNameUncompressed, wire, 'name', lambda o, combo=combo: None if len(o.labels) == len(combo) else 'labels')
    # TXT: every partition of texts into <= 3 character-strings
    for total in (0, 1, 255, 256, 300, 510):
        text = bytes(0x61 + i % 26 for i in range(total))
        parts_list = [[text]] if total <= 255 else []
        for cut in (1, 2, total // 2, 255, total - 1):
            if 0 < cut < total and len(text[:cut]) <= 255 and len(text[cut:]) <= 255:
                parts_list.append([text[:cut], text[cut:]])
        for c1, c2 in ((1, 2), (100, 200), (255, 300), (200, 455)):
            if 0 < c1 < c2 < total and c1 <= 255 and c2 - c1 <= 255 and total - c2 <= 255:
                parts_list.append([text[:c1], text[c1:c2], text[c2:]])
        for parts_ in parts_list:
            wire = ref.txt(parts_)
            label = 'txt_multi' if len(parts_) > 1 else 'txt'
            acc.counters['transitions'] = acc.counters.get('transitions', 0) + 2
            w = {'kind': label, 'rdata': wire[:300]}
            try:
                o = rec.DnsRecordTxt.parse_exact_size(wire)
            except Exception as e:  # noqa
                acc.violation('%s:rejected:%s' % (label, core.ename(e)), 'conformant TXT RDATA rejected', w)
                continue
            if o.value.encode('ascii') != text:
                acc.violation('%s:fields:value' % label, 'TXT strings not recovered', w)
            try:
                back = bytes(o.compose())
                # the concatenation must survive: decoding the re-composition with the reference gives the same text
                pos, got = 0, b''
                while pos < len(back):
                    got += back[pos + 1:pos + 1 + back[pos]]
                    pos += 1 + back[pos]
                if got != text:
                    acc.violation('%s:not_reproduced' % label, 'TXT data is not reproduced by compose', w)
            except Exception as e:  # noqa
                acc.violation('%s:compose_raises:%s:%s' % (label, core.ename(e), 'gt255' if total > 255 else 'le255'),
                              'parsed TXT (%d bytes of text) cannot be composed' % total, w)
            acc.state(core.h64('txt', wire))
    acc.sample({'kind': 'rrsig', 'rdata': ref.rrsig(1, 8, 2, 300, 1, 0, 5, ['a'], b's')}, 1)
    return acc.result()


# ---- object side ----------------------------------------------------------------------------------------------------------
def reference_bytes(o):
    tn = type(o).__name__
    if tn == 'DnsNameUncompressed':
        return ref.name(list(o.labels))
    if tn == 'DnsRecordMx':
        return ref.mx(o.priority, list(o.exchange.labels))
    if tn == 'DnsRecordDs':
        return ref.ds(o.key_tag, o.algorithm.value.code, o.digest_type.value.code, bytes(o.digest))
    if tn == 'DnsRecordTxt':
        return ref.txt([o.value])
    if tn == 'DnsRecordRrsig':
        ep = datetime.datetime(1970, 1, 1, tzinfo=datetime.timezone.utc)

        def sec(dt):
            if dt.tzinfo is None:
                dt = dt.replace(tzinfo=datetime.timezone.utc)
            return int((dt - ep).total_seconds())
        tc = o.type_covered
        tcode = tc.value.code if hasattr(tc.value, 'code') else tc.value
        return ref.rrsig(tcode, o.algorithm.value.code, o.labels, o.original_ttl, sec(o.signature_expiration),
                         sec(o.signature_inception), o.key_tag, list(o.signers_name.labels), bytes(o.signature))
    if tn == 'DnsRecordDnskey':
        p = o.key.params
        pn = type(p).__name__
        if pn == 'PublicKeyParamsRsa':
            key = ref.key_rsa(p.public_exponent, p.modulus)
        elif pn == 'PublicKeyParamsEcdsa':
            size = {'SECP256K1': 32, 'SECP256R1': 32, 'PRIME256V1': 32, 'SECP384R1': 48, 'GC256B': 32}.get(p.named_group.name)
            if size is None:
                raise KeyError(p.named_group.name)
            key = ref.key_ecdsa(p.point_x, p.point_y, size)
        elif pn == 'PublicKeyParamsEddsa':
            key = bytes(p.key_data)
        elif pn == 'PublicKeyParamsDsa':
            size = (max(p.prime.bit_length(), 512) + 63) // 64 * 8
            key = ref.key_dsa((size - 64) // 8, p.order, p.prime, p.generator, p.public_key_value)
        else:
            raise KeyError(pn)
        return ref.dnskey(flag_word(o.flags), o.protocol.value, o.algorithm.value.code, key)
    return None


def _object_worker(args):
    qn, idx, depth = args
    acc = core.Acc()
    cls = classes.class_by_name(qn)
    objs = objects.seed_objects().get(cls, [])
    if idx >= len(objs):
        return acc.result()
    for path, o, stats in objects.neighbourhood(objs[idx], depth, False, 4000):
        acc.counters['transitions'] = acc.counters.get('transitions', 0) + 1
        try:
            got = bytes(o.compose())
        except Exception:  # noqa
            continue
        try:
            exp = reference_bytes(o)
        except (KeyError, OverflowError, ValueError, AssertionError, UnicodeError, AttributeError):
            acc.count('not_encodable_by_reference')
            continue
        if exp is None:
            continue
        w = {'kind': 'object', 'cls': qn, 'seed': idx, 'path': list(path)}
        if got != exp:
            acc.violation('layout:%s' % cls.__name__, '%s composes to bytes that differ from the RFC RDATA layout'
                          % cls.__name__, dict(w, composed=got[:200], reference=exp[:200]))
        elif cls.__name__ == 'DnsRecordDnskey':
            try:
                if o.key_tag != ref.key_tag(got, got[3]):
                    acc.violation('dnskey:key_tag:object:len%%2=%d' % (len(got) % 2), 'key_tag differs from RFC 4034 App. B', w)
            except Exception:  # noqa
                pass
        acc.state(core.h64(qn, got))
    return acc.result()


def _edit_worker(args):
    """Read key_tag / compose, edit the record in place (flags, protocol, algorithm, key; names, times), read again:
    the key tag must be the RFC 4034 Appendix B value of the RDATA the record composes to *now* - i.e. equal to
    what the equal record built by construction answers (whose own tag the wire clauses judge)."""
    qn, idx = args
    from mc.props import c13
    acc = core.Acc()
    cls = classes.class_by_name(qn)
    objs = objects.seed_objects().get(cls, [])
    if idx >= len(objs):
        return acc.result()
    n = c13.check_edit_histories(acc, objs[idx], {'kind': 'edit', 'cls': qn, 'seed': idx},
                                 names=('key_tag', 'compose', '_asdict'), sigprefix='stale_after_edit')
    acc.count('edit_histories', n)
    acc.state(core.h64('edit', qn, idx))
    return acc.result()


def run(ctx):
    items = [('rsa', p, 16) for p in range(16)] + [('flags', p, 32) for p in range(32)] + [('other', p, 4) for p in range(4)]
    ctx.pmap(_dnskey_worker, items)
    ctx.pmap(_other_records_worker, [0], nproc=1)
    so = objects.seed_objects()
    oitems = []
    for cls in classes.parsable_classes():
        if cls.__module__ == 'cryptoparser.dnsrec.record' and cls.__name__.startswith(('DnsRecord', 'DnsName')):
            for i in range(len(so.get(cls, []))):
                oitems.append((classes.qualname(cls), i, 1 if ctx.quick else 2))
    ctx.pmap(_object_worker, oitems)
    ctx.pmap(_edit_worker, [(qn, i) for qn, i, d in oitems])
    ctx.assumptions += ['key tag is computed by the reference over the wire RDATA handed to the parser (RFC 4034 App. B, '
                        'B.1 for algorithm 1)', 'undefined DNSKEY flag bits are not modelled by the library; re-composition '
                        'is compared on the three defined flags', 'Ed448 keys are 57 octets (RFC 8080 s3)']
    return ctx.finish(rule='DNSKEY wire forms: 5 RSA algorithms x 7 exponent lengths (both length forms) x 8 modulus bit '
                           'lengths x 4 top bytes, all 2^16 flag words, DSA T 0..8, ECDSA/GOST coordinate boundaries, '
                           'Ed25519/Ed448 patterns; DS all algorithms x digest types x 4 lengths; RRSIG all RR types + '
                           'private, label/TTL/timestamp boundaries (36 pairs), 5 signer names x 3 signature lengths; MX and '
                           'names: all label sequences of length <= 3 over 4 labels; TXT partitions; object side: '
                           'neighbourhoods of the seeds; read / edit in place / read histories of key_tag and compose')


def replay(ctx, w):
    if w.get('kind') == 'edit':
        res = _edit_worker((w['cls'], w['seed']))
        vs = [v for v in res[1] if v['witness'].get('tag') == w.get('tag')]
        return vs[0] if vs else None
    acc = core.Acc()
    k = w['kind']
    if k == 'dnskey':
        if w['rdata_len'] <= 300:
            check_dnskey_wire(acc, bytes.fromhex(w['rdata']['hex']), w['label'])
        else:
            for which, parts in (('rsa', 1), ('other', 1)):
                res = _dnskey_worker((which, 0, 1))
                for v in res[1]:
                    if v['witness'].get('label') == w['label']:
                        return v
    elif k == 'object':
        cls = classes.class_by_name(w['cls'])
        res = _object_worker((w['cls'], w['seed'], len(w['path']) or 1))
        return res[1][0] if res[1] else None
    else:
        res = _other_records_worker(0)
        for v in res[1]:
            if v['witness'].get('kind') == k:
                return v
        return None
    vs = list(acc.violations.values())
    return vs[0] if vs else None
