"""C02 - parsing untrusted bytes fails only with the documented parse errors.

Exhaustive enumeration of the byte families I1-I7 (mc/bytefam.py) over every seed of every class, through
the public parse entry points; oracle: return, or one of the four documented errors.
Signature of a violation: (exception type, innermost cryptoparser frame file:function).
"""
import os
import sys
import traceback

from mc import bytefam, classes, core

ENTRY_ALL = ('immutable', 'mutable', 'exact')


def leak_signature(exc):
    """(exception type, innermost cryptoparser frame as file:qualified function, text of the source line that
    was executing there).  The line *text* (not its number) keeps the signature stable under unrelated edits
    yet specific enough that another leak in the same function is a different finding."""
    import linecache
    tb = exc.__traceback__
    site = None
    root = os.path.join(os.path.realpath(core.REPO), 'cryptoparser') + os.sep
    while tb is not None:
        code = tb.tb_frame.f_code
        fn = os.path.realpath(code.co_filename)
        if fn.startswith(root):
            line = ' '.join(linecache.getline(fn, tb.tb_lineno).split())
            site = '%s:%s|%s' % (fn[len(root):], getattr(code, 'co_qualname', code.co_name), line[:80])
        tb = tb.tb_next
    return '%s@%s' % (core.ename(exc), site or '?')


def call_entry(cls, entry, data):
    if entry == 'immutable':
        return cls.parse_immutable(data)
    if entry == 'mutable':
        return cls.parse_mutable(bytearray(data))
    return cls.parse_exact_size(data)


class Runner(object):
    def __init__(self, acc):
        self.acc = acc
        self.doc = classes.documented_errors()
        self.outcomes = set()

    def one(self, cls, qn, entry, data, tag):
        acc = self.acc
        acc.counters['transitions'] = acc.counters.get('transitions', 0) + 1
        try:
            call_entry(cls, entry, data)
            out = 'ok'
        except self.doc as e:
            out = core.ename(e)
        except core.Timeout:
            raise
        except RecursionError as e:
            out = 'RecursionError'
            acc.violation('RecursionError@' + qn, 'RecursionError while parsing',
                          {'cls': qn, 'entry': entry, 'data': data, 'family': tag})
        except core.Timeout:
            raise
        except BaseException as e:  # noqa
            sig = leak_signature(e)
            out = sig
            acc.violation(sig, '%s escapes %s.parse_%s: %s' % (core.ename(e), qn.rsplit('.', 1)[1], entry,
                                                               str(e)[:120]),
                          {'cls': qn, 'entry': entry, 'data': data, 'family': tag})
        self.outcomes.add(out)
        return out


def seeds_of(qn):
    return [b for q, b, o in classes.corpus() if q == qn and o == 'ok']


def _extra_seed_pool():
    from mc import seeds as seedmod
    return seedmod.extra_seeds()


def all_seeds(qn):
    s = seeds_of(qn)
    try:
        extra = _extra_seed_pool().get(qn, [])
    except ImportError:
        extra = []
    for b in extra:
        if b not in s:
            s.append(b)
    return s


def work_items(ctx):
    items = []
    for cls in classes.parse_entry_classes():
        qn = classes.qualname(cls)
        ss = all_seeds(qn)
        for i in range(len(ss)):
            items.append((qn, 'seed', i))
        items.append((qn, 'short', 0))
        items.append((qn, 'cross', 0))
        items.append((qn, 'composed', 0))
        if bytefam.is_texty(ss):
            items.append((qn, 'tokens', 0))
        if not ctx.quick:
            for i in range(len(ss)):
                items.append((qn, 'splice', i))
    items.append(('', 'extra', 0))
    return items


def _worker(args):
    qn, kind, idx, thorough = args
    acc = core.Acc()
    r = Runner(acc)
    if kind == 'extra':
        _extra_entry_points(r, thorough)
        return acc.result()
    cls = classes.class_by_name(qn)
    ss = all_seeds(qn)
    try:
        with core.watchdog(600):
            if kind == 'seed':
                seed = ss[idx]
                for entry in ENTRY_ALL:
                    r.one(cls, qn, entry, seed, ('seed',))
                acc.state(core.h64(qn, seed))
                for tag, data in bytefam.i1_truncations(seed):
                    for entry in ENTRY_ALL:
                        r.one(cls, qn, entry, data, tag)
                for gen in (bytefam.i2_substitutions(seed, thorough), bytefam.i3_del_ins(seed, thorough),
                            bytefam.i4_pairs(seed, thorough), bytefam.i9_stretch(seed, thorough),
                            bytefam.i10_json(seed), bytefam.i11_names(seed),
                            bytefam.i12_magic(seed) if len(seed) <= 600 else ()):
                    for tag, data in gen:
                        r.one(cls, qn, 'immutable', data, tag)
                        r.one(cls, qn, 'mutable', data, tag)
                        acc.count('inputs')
                if idx == 0:
                    acc.sample({'cls': qn, 'seed': seed, 'example_mutation': 'I2 pos 0 -> 0xff'}, 1)
            elif kind == 'composed':
                # what the composer writes for every object within one deviation of every seed object (values no byte
                # family reaches: lists of mixed kinds, every enum member, boundary integers), on the three entry points
                from mc import objects
                import enum
                for o0 in objects.seed_objects().get(cls, []):
                    if isinstance(o0, enum.Enum):
                        continue
                    for path, o, stats in objects.neighbourhood(o0, 1, False, 400):
                        try:
                            data = bytes(o.compose())
                        except Exception:  # noqa (C05 / C13)
                            continue
                        for entry in ENTRY_ALL:
                            r.one(cls, qn, entry, data, ('composed',) + tuple(str(p) for p in path))
                        acc.count('inputs')
            elif kind == 'short':
                for tag, data in bytefam.i5_short(ss, thorough):
                    r.one(cls, qn, 'immutable', data, tag)
                    acc.count('inputs')
            elif kind == 'tokens':
                for tag, data in bytefam.i6_tokens(ss, 4 if thorough else 3):
                    r.one(cls, qn, 'immutable', data, tag)
                    acc.count('inputs')
            elif kind == 'cross':
                fam = classes.family(qn)
                for q2, b, o in classes.corpus():
                    if classes.family(q2) == fam and (q2 != qn or o != 'ok'):
                        r.one(cls, qn, 'immutable', b, ('cross', q2))
                        acc.count('inputs')
            elif kind == 'splice':
                s1 = ss[idx]
                for j, s2 in enumerate(ss):
                    for tag, data in bytefam.i7_splices(s1, s2):
                        r.one(cls, qn, 'immutable', data, tag)
                        acc.count('inputs')
    except core.Timeout:
        # the item-level watchdog is a budget of this harness, not a clause of the property (run time is C19's
        # subject): the item is reported as cut, the run as capped
        acc.count('work_items_cut_by_watchdog')
        acc.sample({'cut_by_watchdog': qn, 'kind': kind, 'idx': idx, 'seconds': 600}, 3)
    acc.count('outcomes_' + qn, 0)
    acc.counters['distinct_outcomes_max'] = max(acc.counters.get('distinct_outcomes_max', 0), len(r.outcomes))
    for o in r.outcomes:
        acc.state(core.h64('outcome', qn, o))
    return acc.result()


def _extra_entry_points(r, thorough):
    """Public parse functions that are not one of the three class entry points."""
    from cryptoparser.tls.record import TlsRecord
    from cryptoparser.tls.openvpn import OpenVpnPacketBase
    from cryptoparser.dnsrec.record import DnsRecordDnskey
    from cryptodatahub.dnsrec.algorithm import DnsSecAlgorithm
    acc = r.acc
    doc = r.doc

    def run(label, fn, data, tag):
        acc.count('transitions')
        try:
            fn(data)
        except doc:
            pass
        except core.Timeout:
            raise
        except BaseException as e:  # noqa
            acc.violation(leak_signature(e), '%s escapes %s: %s' % (core.ename(e), label, str(e)[:120]),
                          {'extra': label, 'data': data, 'family': tag})

    def families(seed):
        yield ('seed',), seed
        for x in bytefam.i1_truncations(seed):
            yield x
        for x in bytefam.i2_substitutions(seed, thorough):
            yield x
        for x in bytefam.i3_del_ins(seed, thorough):
            yield x

    for qn, fn in (('cryptoparser.tls.record.TlsRecord', TlsRecord.parse_header),
                   ('cryptoparser.tls.openvpn.OpenVpnPacketWrapperTcp', None)):
        if fn is None:
            continue
        for seed in seeds_of(qn):
            for tag, data in families(seed):
                run('TlsRecord.parse_header', fn, data, tag)
    for cls in classes.parsable_classes():
        if issubclass(cls, OpenVpnPacketBase) and hasattr(cls, 'parse_header'):
            qn = classes.qualname(cls)
            for seed in seeds_of(qn):
                for tag, data in families(seed):
                    run(qn + '.parse_header', cls.parse_header, data, tag)
    # DNSKEY key material, every algorithm x every key seed
    key_seeds = []
    for seed in seeds_of('cryptoparser.dnsrec.record.DnsRecordDnskey'):
        if len(seed) > 4 and seed[4:] not in key_seeds:
            key_seeds.append(seed[4:])
    for alg in DnsSecAlgorithm:
        for ks in key_seeds:
            for tag, data in families(ks):
                run('DnsRecordDnskey.parse_key[%s]' % alg.name, lambda d, a=alg: DnsRecordDnskey.parse_key(d, a),
                    data, tag)
        for tag, data in bytefam.i5_short([], False):
            run('DnsRecordDnskey.parse_key[%s]' % alg.name, lambda d, a=alg: DnsRecordDnskey.parse_key(d, a),
                data, tag)
    # SubprotocolParser.parse x every registered type
    from cryptoparser.tls.subprotocol import (TlsSubprotocolMessageParser, SslSubprotocolMessageParser,
                                              TlsContentType, SslMessageType)
    for pcls, tenum in ((TlsSubprotocolMessageParser, TlsContentType), (SslSubprotocolMessageParser, SslMessageType)):
        for t in tenum:
            parser = pcls(t)
            target = pcls._get_subprotocol_parsers().get(t)
            pool = seeds_of(classes.qualname(target)) if target is not None else [b'\x00\x01']
            if target is not None and not pool:
                pool = [s for c in classes.parsable_classes() if c.__module__ == 'cryptoparser.tls.subprotocol'
                        for s in seeds_of(classes.qualname(c))][:20]
            for seed in pool[:12]:
                for tag, data in families(seed):
                    run('%s(%s).parse' % (pcls.__name__, t.name), parser.parse, data, tag)


def run(ctx):
    items = [(qn, kind, idx, not ctx.quick) for qn, kind, idx in work_items(ctx)]
    ctx.notes['work_items'] = len(items)
    ctx.notes['classes'] = len(classes.parse_entry_classes())
    ctx.pmap(_worker, items)
    if ctx.counters.get('work_items_cut_by_watchdog'):
        ctx.cap('%d work items cut by the 600 s per-item watchdog (their remaining inputs were not run)'
                % ctx.counters['work_items_cut_by_watchdog'])
    ctx.assumptions += [
        'documented parse errors = InvalidDataLength family (NotEnoughData, TooMuchData), '
        'cryptodatahub InvalidValue, InvalidType',
        'parse_exact_size is exercised on seeds and all truncations only; it differs from parse_immutable by a '
        'length comparison and no class overrides it (checked by reflection at run time)',
        'inputs needing >= 3 coordinated byte changes away from every seed are outside the bound',
    ]
    _check_no_override(ctx)
    fam = ('I1 all truncations; I2 every single-byte substitution (B9 quick / all 256 thorough); I3 every '
           'single deletion and B5 insertion; I4 all B5 pairs at positions <8 (quick) / <24; I9 one byte raised to 3f/40/7f/ff with 300 filler octets appended; I10 JSON member values replaced by 14 alternatives (NaN, 1e400, wrong types) / removed; I11 every uint32-prefixed SSH algorithm / curve name replaced by every other member of its enumeration; I5 all strings of '
           'length <=1 and (thorough) 2 over 256 values, 2-4 over a reduced alphabet; I6 token sequences for text '
           'classes; cross-class seeds of the same family; I7 splices (thorough); extra parse functions. '
           'state = distinct (class, seed) and distinct (class, outcome)')
    return ctx.finish(rule=fam, distinct_outcomes=len([1 for h in ctx.state_hashes]))


def _check_no_override(ctx):
    from cryptoparser.common.parse import ParsableBaseNoABC
    for cls in classes.parse_entry_classes():
        for name in ('parse_mutable', 'parse_immutable', 'parse_exact_size'):
            f = getattr(cls, name).__func__
            if f is not getattr(ParsableBaseNoABC, name).__func__:
                ctx.notes.setdefault('entry_overrides', []).append('%s.%s' % (classes.qualname(cls), name))


def replay(ctx, w):
    acc = core.Acc()
    r = Runner(acc)
    data = bytes.fromhex(w['data']['hex'])
    if 'extra' in w:
        # re-run through the whole extra pass restricted by label is costly; run the named function directly
        label = w['extra']
        fn = _resolve_extra(label)
        try:
            fn(data)
        except r.doc:
            return None
        except core.Timeout:
            raise
        except BaseException as e:  # noqa
            return {'signature': leak_signature(e), 'what': repr(e)[:200], 'witness': w}
        return None
    cls = classes.class_by_name(w['cls'])
    r.one(cls, w['cls'], w['entry'], data, tuple(w.get('family', ())))
    vs = list(acc.violations.values())
    return vs[0] if vs else None


def _resolve_extra(label):
    from cryptoparser.tls.record import TlsRecord
    from cryptoparser.dnsrec.record import DnsRecordDnskey
    from cryptodatahub.dnsrec.algorithm import DnsSecAlgorithm
    if label == 'TlsRecord.parse_header':
        return TlsRecord.parse_header
    if label.startswith('DnsRecordDnskey.parse_key['):
        alg = DnsSecAlgorithm[label[label.index('[') + 1:-1]]
        return lambda d: DnsRecordDnskey.parse_key(d, alg)
    if label.endswith('.parse_header'):
        return classes.class_by_name(label[:-len('.parse_header')]).parse_header
    if label.endswith('.parse'):
        from cryptoparser.tls import subprotocol
        name, t = label[:-len('.parse')].rstrip(')').split('(')
        pcls = getattr(subprotocol, name)
        tenum = subprotocol.TlsContentType if name.startswith('Tls') else subprotocol.SslMessageType
        return pcls(tenum[t]).parse
    raise KeyError(label)
