"""C12 - length-prefixed vectors stay within bounds through any edit sequence.

Explicit-state BFS on real vector objects against a plain list (DESIGN §5 C12).  A state is reached by
replaying its history of events on a freshly constructed vector; states are merged by
(class, item dumps, hidden _items_size)."""
import copy

from mc import canon, classes, core, harvest_objects, objects


# ---- toy vector classes with tight bounds so that both bounds are reachable within the depth bound ----------
def toy_classes():
    from cryptoparser.common import base

    class ToyVector(base.Vector):
        @classmethod
        def get_param(cls):
            return base.VectorParamNumeric(item_size=2, min_byte_num=2, max_byte_num=8)

    class ToyOpaque(base.Opaque):
        @classmethod
        def get_param(cls):
            return base.OpaqueParam(min_byte_num=1, max_byte_num=4)

    class ToyOpaqueItem(base.Opaque):
        @classmethod
        def get_param(cls):
            return base.OpaqueParam(min_byte_num=0, max_byte_num=255)

    class ToyVectorParsable(base.VectorParsable):
        @classmethod
        def get_param(cls):
            return base.VectorParamParsable(item_class=ToyOpaqueItem, fallback_class=None,
                                            min_byte_num=2, max_byte_num=9)

    class ToyVectorString(base.VectorString):
        @classmethod
        def get_param(cls):
            return base.VectorParamString(min_byte_num=1, max_byte_num=5, fallback_class=str)

    return {
        ToyVector: [0, 1, 0xffff],
        ToyOpaque: [0, 1, 255],
        ToyVectorParsable: [ToyOpaqueItem([]), ToyOpaqueItem([1]), ToyOpaqueItem([1, 2, 3])],
        ToyVectorString: ['a', 'bc', 'def'],
    }


# ---- item alphabets ----------------------------------------------------------------------------------------
def ref_item_size(cls, param, item):
    """Encoded size of one item, from the item itself (never through param.get_item_size)."""
    import enum as _enum
    from cryptoparser.common import base
    if isinstance(param, (base.VectorParamNumeric,)):
        return param.item_size
    if isinstance(item, str):
        return len(item.encode('ascii', 'replace'))
    if isinstance(item, _enum.Enum) and hasattr(item.value, 'code'):
        code = item.value.code
        if isinstance(code, str):
            if issubclass(cls, base.VectorEnumCodeString):
                return 1 + len(code.encode('utf-8'))
            return len(code)
        return item.value.get_code_size()
    if hasattr(item, 'compose'):
        return len(item.compose())
    return len(str(item))


def bound_size(cls, param, items):
    """The size the protocol bound applies to.  For length-prefixed binary vectors this is the body.  For
    separator-joined lists (SSH name-lists, the CRLF-separated header block) the library's bounds count the
    items only; no library class has a reachable bound of that kind (2^32-1 / no prefix at all), so the
    modelling choice cannot hide a defect of a real class - see DESIGN C12."""
    return sum(ref_item_size(cls, param, x) for x in items)


def body_size(cls, param, items):
    """Number of body bytes compose() must emit after the prefix."""
    from cryptoparser.common import base
    total = sum(ref_item_size(cls, param, x) for x in items)
    if isinstance(param, base.VectorParamString) and len(items) > 1:
        total += (len(items) - 1) * len(param.separator)
    if issubclass(cls, base.ListParsable):
        # layout: item SEP item SEP ... item SEP SEP  (n items: n+1 separators); empty list: one SEP
        sep = len(param.separator_class().compose())
        total += sep * (len(items) + 1 if items else 1)
    return total


def item_alphabet(cls):
    """Up to 3 valid items, pairwise different encoded size where the item type allows."""
    import enum as _enum
    from cryptoparser.common import base
    toys = _toys()
    if cls in toys:
        return list(toys[cls])
    param = cls.get_param()
    cands = []
    if isinstance(param, base.VectorParamNumeric):
        nc = param.numeric_class
        if isinstance(nc, type) and issubclass(nc, _enum.Enum):
            cands = list(nc)[:3]
        elif param.item_size == 1:
            cands = [0, 1, 255]
        else:
            cands = [0, 1, 2 ** (8 * param.item_size) - 1]
        return cands
    inst = harvest_objects.instances_by_class().get(cls, [])
    seen = set()
    for v in inst:
        for x in list(v):
            k = repr(canon.dump(x))
            if k not in seen:
                seen.add(k)
                cands.append(x)
    item_class = getattr(param, 'item_class', None)
    if isinstance(item_class, type) and hasattr(item_class, 'get_enum_class'):
        for m in list(item_class.get_enum_class())[:4]:
            if repr(canon.dump(m)) not in seen:
                seen.add(repr(canon.dump(m)))
                cands.append(m)
    elif isinstance(item_class, type) and issubclass(item_class, _enum.Enum):
        for m in list(item_class)[:4]:
            if repr(canon.dump(m)) not in seen:
                seen.add(repr(canon.dump(m)))
                cands.append(m)
    fb = getattr(param, 'fallback_class', None)
    if fb is str:
        cands.append('unknown-name@verif')
    elif isinstance(fb, type) and fb.__name__.startswith('TlsInvalidType'):
        cands.append(fb(0x0a if fb.__name__.endswith('OneByte') else 0x0a0a))
        cands.append(fb(0xee if fb.__name__.endswith('OneByte') else 0xeeee))
    # prefer distinct sizes
    out, sizes = [], set()
    for x in cands:
        try:
            s = ref_item_size(cls, param, x)
        except Exception:  # noqa
            continue
        if s not in sizes:
            sizes.add(s)
            out.append(x)
    for x in cands:
        if len(out) >= 3:
            break
        if not any(x is y for y in out):
            out.append(x)
    return out[:3]


_TOYS = {}


def _toys():
    if not _TOYS:
        _TOYS.update(toy_classes())
    return _TOYS


def vector_classes():
    from cryptoparser.common.base import ArrayBase
    from cryptoparser.common.base import OpaqueEnumParsable
    # OpaqueEnumParsable subclasses are code-point factories (their parser returns an enum member, not a vector)
    out = [c for c in classes.parsable_classes() if issubclass(c, ArrayBase) and not issubclass(c, OpaqueEnumParsable)]
    return out + list(_toys())


# ---- events ------------------------------------------------------------------------------------------------
def events(nitems):
    """Concrete events: (name, function(target, items)) applied identically to the vector and the model list."""
    ev = []
    R = range(nitems)
    for a in R:
        ev.append(('append(%d)' % a, lambda t, it, a=a: t.append(it[a])))
        for idx, iname in ((0, '0'), (1, '1'), (-1, '-1'), ('len', 'len'), ('len+5', 'len+5')):
            def ins(t, it, a=a, idx=idx):
                i = len(t) if idx == 'len' else len(t) + 5 if idx == 'len+5' else idx
                t.insert(i, it[a])
            ev.append(('insert(%s,%d)' % (iname, a), ins))
        ev.append(('remove(%d)' % a, lambda t, it, a=a: t.remove(it[a])))
        for idx in (0, -1):
            def setit(t, it, a=a, idx=idx):
                t[idx] = it[a]
            ev.append(('set[%d]=%d' % (idx, a), setit))
        for b in R:
            ev.append(('extend(%d,%d)' % (a, b), lambda t, it, a=a, b=b: t.extend([it[a], it[b]])))
            def setslice(t, it, a=a, b=b):
                t[0:1] = [it[a], it[b]]
            ev.append(('set[0:1]=(%d,%d)' % (a, b), setslice))

        def iadd(t, it, a=a):
            t += [it[a]]
        ev.append(('iadd(%d)' % a, iadd))

        # edits a plain list refuses for some states (extended slice of another length, index out of range): the
        # vector must refuse them too and stay exactly as it was - later edits are judged from that state
        def setstep3(t, it, a=a):
            t[::2] = [it[a]] * 3
        ev.append(('set[::2]=(%d)x3' % a, setstep3))

        def setstep_same(t, it, a=a):
            t[1::2] = [it[a]] * len(range(*slice(1, None, 2).indices(len(t))))
        ev.append(('set[1::2]=(%d)xfit' % a, setstep_same))

        def set_beyond(t, it, a=a):
            t[len(t) + 5] = it[a]
        ev.append(('set[len+5]=%d' % a, set_beyond))
    # the new items arrive as a one-shot iterator / generator / tuple: a plain list takes any iterable, once
    def setslice_iter(t, it):
        t[0:1] = iter([it[0], it[nitems - 1]])

    def setslice_gen(t, it):
        t[1:] = (x for x in (it[nitems - 1],))

    def extend_iter(t, it):
        t.extend(iter([it[0]]))

    def iadd_tuple(t, it):
        t += (it[0],)
    ev += [('set[0:1]=iter(0,last)', setslice_iter), ('set[1:]=gen(last)', setslice_gen),
           ('extend(iter(0))', extend_iter), ('iadd(tuple(0))', iadd_tuple)]
    ev.append(('pop()', lambda t, it: t.pop()))
    ev.append(('pop(0)', lambda t, it: t.pop(0)))

    def d0(t, it):
        del t[0]

    def dm1(t, it):
        del t[-1]

    def dall(t, it):
        del t[:]

    def d01(t, it):
        del t[0:1]

    def d1_(t, it):
        del t[1:]

    def dstep(t, it):
        del t[::2]

    def s02(t, it):
        t[0:2] = []
    def dbeyond(t, it):
        del t[len(t) + 5]

    ev += [('del[len+5]', dbeyond), ('pop(len+5)', lambda t, it: t.pop(len(t) + 5))]
    ev += [('del[0]', d0), ('del[-1]', dm1), ('del[:]', dall), ('del[0:1]', d01), ('del[1:]', d1_),
           ('del[::2]', dstep), ('set[0:2]=()', s02), ('reverse()', lambda t, it: t.reverse()),
           ('clear()', lambda t, it: t.clear())]
    return ev


def event_kind(name):
    return name.split('(')[0].split('=')[0].rstrip('0123456789-,') if '[' not in name else name.split('=')[0]


def _rle(init):
    out = []
    for x in init:
        r = repr(x)[:80]
        if out and out[-1][0] == r:
            out[-1][1] += 1
        else:
            out.append([r, 1])
    return out


def length_error_types():
    from cryptoparser.common.exception import InvalidDataLength
    return (InvalidDataLength,)


def _items_of(v):
    """The items a vector holds, through its public sequence interface (the private list is used only as a fast path
    when it exists, so that a refactoring of the storage does not break the exploration)."""
    it = getattr(v, '_items', None)
    return list(it) if isinstance(it, list) else list(v)


def _hidden_size(v):
    """The incremental size counter, if the implementation keeps one (part of the explored state: two states with the
    same items but different counters have different futures)."""
    return getattr(v, '_items_size', None)


class Explorer(object):
    def __init__(self, cls, acc, light=False):
        self.cls = cls
        self.acc = acc
        self.qn = cls.__name__
        self.param = cls.get_param()
        self.items = item_alphabet(cls)
        self.events = events(len(self.items))
        self.light = light
        self.LenErr = length_error_types()
        from cryptoparser.common import base
        self.kind = [b.__name__ for b in cls.__mro__ if b.__module__ == 'cryptoparser.common.base'][0]

    def build(self, init, hist):
        """Fresh vector with the history replayed through the real methods; the model list for the next step is
        the abstraction of the reached state (its stored items) - any disagreement with a plain list was already
        reported at the step where it arose."""
        v = self.cls(list(init))
        for ei in hist:
            name, fn = self.events[ei]
            try:
                fn(v, self.items)
            except Exception:  # noqa
                pass
        return v, _items_of(v)

    def snapshot(self, v):
        items = _items_of(v)
        if len(items) > 256 or getattr(self, 'huge', False):
            # large vectors only ever hold the alphabet objects themselves: identity is a sound item key
            return (tuple(id(x) for x in items), _hidden_size(v))
        return (tuple(repr(canon.dump(x, eq=True)) for x in items), _hidden_size(v))

    @staticmethod
    def clone(v):
        """Independent copy of a vector state: its whole state is (item list, size counter); items are
        immutable alphabet objects.  (selftest compares clone-based and replay-based exploration.)"""
        if isinstance(getattr(v, '_items', None), list):
            c = copy.copy(v)
            c._items = list(v._items)
            return c
        return copy.deepcopy(v)

    @staticmethod
    def same_items(a, b):
        if len(a) != len(b):
            return False
        for x, y in zip(a, b):
            if x is y:
                continue
            if canon.dump(x, eq=True) != canon.dump(y, eq=True):
                return False
        return True

    def viol(self, clause, evname, what, init, hist, ev=None):
        w = {'cls': classes.qualname(self.cls) if self.cls.__module__.startswith('cryptoparser') else self.qn,
             'init': _rle(init), 'init_len': len(init),
             'history': [self.events[e][0] for e in hist], 'event': evname, 'clause': clause}
        self.acc.violation('%s:%s:%s' % (self.kind, event_kind(evname) if evname else '-', clause), what, w)

    def check_state(self, v, L, init, hist):
        """Per-state invariants: compose prefix/body, round trip, len/iter/index."""
        acc = self.acc
        cur = [x for x in v]
        if len(v) != len(L) or len(cur) != len(L):
            self.viol('len_mismatch', '', 'len(vector)=%d, model list has %d items' % (len(v), len(L)), init, hist)
            return
        if not self.same_items(cur, L) or (len(L) and not self.same_items([v[0], v[-1]], [L[0], L[-1]])):
            self.viol('items_mismatch', '', 'iteration/indexing of the vector differs from the model list', init, hist)
            return
        size = body_size(self.cls, self.param, L)
        bsize = bound_size(self.cls, self.param, L)
        if not (self.param.min_byte_num <= bsize <= self.param.max_byte_num):
            self.viol('state_out_of_bounds', '', 'vector holds %d body bytes, allowed %d..%d'
                      % (bsize, self.param.min_byte_num, self.param.max_byte_num), init, hist)
        if self.light and len(L) > 2000:
            return
        try:
            composed = bytes(v.compose())
        except Exception as e:  # noqa
            self.viol('compose_fails', '', 'compose() of a reachable vector raises %s' % core.ename(e), init, hist)
            return
        w = self.param.item_num_size
        if self.cls.__name__ == 'TlsHandshakeHelloRandomBytes':
            w = 0
        if w:
            prefix = int.from_bytes(composed[:w], 'big')
            if prefix != len(composed) - w:
                self.viol('prefix_ne_body', '', 'length prefix %d, body has %d bytes' % (prefix, len(composed) - w),
                          init, hist)
        if len(composed) - w != size:
            self.viol('body_size', '', 'composed body has %d bytes, items encode to %d' % (len(composed) - w, size),
                      init, hist)
        try:
            back = self.cls.parse_exact_size(composed)
            if canon.dump(back, eq=True) != canon.dump(v, eq=True):
                self.viol('roundtrip', '', 'parse(compose(vector)) differs from the vector', init, hist)
        except classes.documented_errors() as e:
            self.viol('roundtrip', '', 'compose() of a reachable vector is rejected by the parser: %s'
                      % core.ename(e), init, hist)
        except Exception:  # noqa (C02's business)
            pass

    def step(self, init, hist, ei, parent=None):
        """One transition from the state reached by hist: apply event ei, check the transition oracle.
        Returns (new history, new vector) if the state changed (else None)."""
        acc = self.acc
        if parent is None:
            v, L = self.build(init, hist)
        else:
            v = self.clone(parent)
            L = _items_of(v)
        name, fn = self.events[ei]
        before = self.snapshot(v)
        L2 = list(L)
        try:
            fn(L2, self.items)
            model_ok = True
        except Exception:  # noqa
            model_ok = False
        acc.counters['transitions'] = acc.counters.get('transitions', 0) + 1
        try:
            fn(v, self.items)
            raised = None
        except core.Timeout:
            raise
        except BaseException as e:  # noqa
            raised = e
        size2 = bound_size(self.cls, self.param, L2) if model_ok else None
        in_bounds = model_ok and self.param.min_byte_num <= size2 <= self.param.max_byte_num
        if raised is None:
            if not model_ok:
                self.viol('accepts_what_list_refuses', name, 'vector accepted an edit a plain list refuses', init,
                          hist + [ei], name)
                return hist + [ei], v
            cur = _items_of(v)
            if not self.same_items(cur, L2):
                self.viol('result_differs_from_list', name, 'after %s the vector has %d items, a list has %d%s'
                          % (name, len(cur), len(L2), '' if len(cur) != len(L2) else ' (different items)'),
                          init, hist + [ei], name)
            if not in_bounds:
                self.viol('out_of_bounds_accepted', name, 'edit accepted although the body would be %d bytes '
                          '(allowed %d..%d)' % (size2, self.param.min_byte_num, self.param.max_byte_num),
                          init, hist + [ei], name)
            return hist + [ei], v
        # the vector refused the edit
        after = self.snapshot(v)
        if after != before:
            self.viol('refused_edit_changed_state', name, '%s raised %s but the vector changed (%d -> %d items, '
                      'size counter %s -> %s)' % (name, type(raised).__name__, len(before[0]), len(after[0]),
                                                  before[1], after[1]), init, hist + [ei], name)
        if model_ok and not in_bounds and not isinstance(raised, self.LenErr):
            self.viol('out_of_bounds_wrong_error', name, 'edit leaving the bounds refused with %s, not a data-length '
                      'error' % type(raised).__name__, init, hist + [ei], name)
        if model_ok and in_bounds and isinstance(raised, self.LenErr):
            self.viol('in_bounds_refused_as_length_error', name, 'edit keeping the body at %d bytes (allowed %d..%d) '
                      'refused with %s' % (size2, self.param.min_byte_num, self.param.max_byte_num,
                                           type(raised).__name__), init, hist + [ei], name)
        if after != before:
            return hist + [ei], v
        return None

    def bfs(self, init, depth):
        seen = set()
        try:
            v0, L0 = self.build(init, [])
        except Exception:  # noqa - initial state not constructible
            return 0
        seen.add(self.snapshot(v0))
        self.check_state(v0, L0, init, [])
        frontier = [([], v0)]
        for d in range(depth):
            nxt = []
            for hist, pv in frontier:
                for ei in range(len(self.events)):
                    r = self.step(init, hist, ei, parent=pv)
                    if r is None:
                        continue
                    h2, v = r
                    k = self.snapshot(v)
                    if k in seen:
                        continue
                    seen.add(k)
                    self.check_state(v, _items_of(v), init, h2)
                    nxt.append((h2, v))
            frontier = nxt
        for k in seen:
            self.acc.state(core.h64(self.qn, len(init), repr(init[:3])[:120], hash(k) if len(k[0]) > 256 else k))
        return len(seen)


def check_constructor_aliasing(ex, init):
    """A vector owns its storage: built from a caller's list, or from another vector of its class, it neither follows
    later edits of that source nor changes it when it is edited itself (every event of the alphabet, each from a
    fresh pair).  Reported with the clauses source_follows / source_changed / copy_follows."""
    acc = ex.acc
    cls = ex.cls
    n = 0
    for src_kind in ('list', 'vector'):
        for ei, (evname, fn) in enumerate(ex.events):
            try:
                src = list(init) if src_kind == 'list' else cls(list(init))
                v = cls(src)
            except Exception:  # noqa
                return n
            model = list(init)
            n += 1
            acc.counters['transitions'] = acc.counters.get('transitions', 0) + 1
            # (1) edit the vector built from the source: the source must not change
            try:
                fn(v, ex.items)
            except Exception:  # noqa - refused edit
                pass
            src_items = src if src_kind == 'list' else _items_of(src)
            if not ex.same_items(src_items, model):
                ex.viol('source_changed', evname, 'editing a vector built from a %s changed that %s'
                        % (src_kind, src_kind), init, [], evname)
                break
            if src_kind == 'vector':
                ex.check_state(src, model, init, [])
            # (2) edit the source: the vector built from it must not follow
            try:
                src2 = list(init) if src_kind == 'list' else cls(list(init))
                v2 = cls(src2)
                if src_kind == 'list':
                    if model:
                        del src2[0]
                    src2.append(ex.items[0])
                else:
                    fn(src2, ex.items)
            except Exception:  # noqa
                continue
            if not ex.same_items(_items_of(v2), model):
                ex.viol('copy_follows' if src_kind == 'vector' else 'source_follows', evname,
                        'a vector built from a %s changed when that %s was edited afterwards' % (src_kind, src_kind),
                        init, [], evname)
                break
            ex.check_state(v2, model, init, [])
    return n


def initial_states(cls, items, param):
    """Small initial states: empty (if allowed), minimum size, 2 items, one harvested vector."""
    inits = []

    def ok(init):
        try:
            cls(list(init))
            return True
        except Exception:  # noqa
            return False
    for init in ([], items[:1], items[:2], items[1:3], [items[0]] * 3, [items[-1], items[0]]):
        if ok(init) and init not in inits:
            inits.append(list(init))
    # minimum-size vector
    if items:
        cur = []
        for _ in range(64):
            if ok(cur):
                break
            cur = cur + [items[0]]
        if ok(cur) and cur not in inits:
            inits.append(cur)
    return inits


def near_max_states(cls, items, param):
    """A vector one item below its maximum and one exactly at it (only where the maximum <= 2**16)."""
    out = []
    if param.max_byte_num > 2 ** 16 or not items:
        return out
    sizes = [(ref_item_size(cls, param, x), x) for x in items]
    s0, x0 = min(sizes, key=lambda t: t[0])
    if s0 <= 0:
        return out
    n = param.max_byte_num // s0
    for k in (n, n - 1):
        if k >= 0:
            out.append([x0] * k)
    return out


def huge_states(cls, items, param):
    """For vectors of parsable items whose maximum lies in (2^16, 2^24]: one item stretched (through a bytes field of
    its own) so that the vector is exactly at its maximum, and one alphabet item below it."""
    out = []
    if not (2 ** 16 < param.max_byte_num <= 2 ** 24) or not items:
        return out, None
    s0 = min(ref_item_size(cls, param, x) for x in items)
    for x in items:
        if not objects.is_lib_object(x):
            continue
        for a, kw in (objects._init_fields(x) or []):
            try:
                v = getattr(x, a)
            except AttributeError:
                continue
            if not isinstance(v, (bytes, bytearray)):
                continue
            try:
                smallest = objects.rebuild(x, a, b'')
                over = ref_item_size(cls, param, smallest)
                for total in (param.max_byte_num, param.max_byte_num - s0, param.max_byte_num - over,
                              param.max_byte_num - 1):
                    big = objects.rebuild(x, a, b'\xa5' * (total - over))
                    if ref_item_size(cls, param, big) == total:
                        out.append([big])
            except Exception:  # noqa
                continue
            return out, smallest
    return out, None


def _worker(args):
    ci, mode, depth = args
    acc = core.Acc()
    cls = vector_classes()[ci]
    try:
        items = item_alphabet(cls)
    except Exception as e:  # noqa
        items = []
    if not items:
        acc.count('classes_without_items')
        acc.sample({'cls': cls.__name__, 'skipped': 'no item alphabet'}, 1)
        return acc.result()
    param = cls.get_param()
    with core.watchdog(3000):
        if mode == 'small':
            ex = Explorer(cls, acc)
            n = 0
            for init in initial_states(cls, items, param):
                n += ex.bfs(init, depth)
                acc.count('constructor_aliasing_histories', check_constructor_aliasing(ex, init))
            acc.count('classes_small')
            acc.sample({'cls': cls.__name__, 'items': [repr(x)[:60] for x in items], 'events': len(ex.events),
                        'depth': depth, 'states': n}, 1)
        elif mode == 'huge':
            ex = Explorer(cls, acc, light=True)
            ex.huge = True
            inits, smallest = huge_states(cls, items, param)
            if smallest is not None:
                # the smallest encodable item (empty payload) joins the alphabet: it is the one an off-by-a-prefix size
                # computation lets through at the maximum
                ex.items = [smallest] + [x for x in ex.items][:2]
                ex.events = events(len(ex.items))
            for init in inits:
                try:
                    cls(list(init))
                except Exception:  # noqa
                    continue
                ex.bfs(init, depth)
                acc.count('huge_initial_states')
        else:
            ex = Explorer(cls, acc, light=True)
            for init in near_max_states(cls, items, param):
                try:
                    cls(list(init))
                except Exception:  # noqa
                    continue
                ex.bfs(init, depth)
                acc.count('near_max_initial_states')
    return acc.result()


def run(ctx):
    vcs = vector_classes()
    depth_small = 2 if ctx.quick else 3
    depth_toy = 4 if ctx.quick else 5
    items = []
    ntoy = len(_toys())
    for ci, cls in enumerate(vcs):
        toy = ci >= len(vcs) - ntoy
        items.append((ci, 'small', depth_toy if toy else depth_small))
        param = cls.get_param()
        if not toy and param.max_byte_num <= 2 ** 16:
            big = param.max_byte_num > 2 ** 12
            items.append((ci, 'nearmax', (1 if big else 2) if ctx.quick else (2 if big else 3)))
        elif not toy and param.max_byte_num <= 2 ** 24:
            items.append((ci, 'huge', 1 if ctx.quick else 2))
    ctx.notes['vector_classes'] = len(vcs)
    ctx.pmap(_worker, items)
    ctx.assumptions += [
        'item alphabets: up to 3 valid items per class with pairwise different encoded sizes where available',
        'upper bounds of 2^32-1 (SSH name-lists) are not approached; 2^24-1 bounds are approached for vectors whose '
        'item has a stretchable bytes field (certificate chains)',
        'four toy subclasses of Vector/Opaque/VectorParsable/VectorString with tight bounds (defined in /verif) '
        'run the real ArrayBase code so both bounds are reachable within the depth bound',
    ]
    return ctx.finish(rule='constructor aliasing (vector built from a list / from a vector, every event on either side); BFS over event sequences (about 60 concrete events: append, insert x5 positions, extend, '
                           '+=, pop, remove, del int/slice, item and slice assignment, reverse, clear) of depth <= %d '
                           'from 5-7 small initial states per class, depth <= %d for tight-bound toy classes, depth '
                           '1-3 from at-maximum and one-below-maximum states; states merged by (items, hidden size '
                           'counter)' % (depth_small, depth_toy))


def replay(ctx, w):
    acc = core.Acc()
    for cls in vector_classes():
        name = classes.qualname(cls) if cls.__module__.startswith('cryptoparser') else cls.__name__
        if name == w['cls']:
            items = item_alphabet(cls)
            param = cls.get_param()
            cands = initial_states(cls, items, param) + near_max_states(cls, items, param)
            for init in cands:
                if len(init) == w['init_len'] and _rle(init) == w['init']:
                    ex = Explorer(cls, acc, light=len(init) > 2000)
                    names = [e[0] for e in ex.events]
                    hist = [names.index(h) for h in w['history']]
                    if w.get('clause') in ('source_changed', 'source_follows', 'copy_follows'):
                        check_constructor_aliasing(ex, init)
                    elif w.get('event'):
                        ex.step(init, hist[:-1], hist[-1])
                    else:
                        v, L = ex.build(init, hist)
                        ex.check_state(v, L, init, hist)
                    break
    vs = list(acc.violations.values())
    for v in vs:
        if v['signature'].endswith(':' + w['clause']):
            return v
    return vs[0] if vs else None
