"""C09 - opportunistic-TLS application messages match their protocol specifications.

Spec-level field spaces encoded by misc_ref; oracles: the library parses the reference encoding to the right TYPE and
the right field values, and composes the same bytes from those values.
"""
import itertools

from mc import canon, classes, core
from mc.ref import misc_ref as ref


def word(members):
    w = 0
    for m in members:
        w |= int(m)
    return w


def members_of(en, w):
    return {m for m in en if int(m) and int(m) & w == int(m)}


# PDUs whose own header states their extent (RFC 1006 TPKT length, X.224 length indicator, MS-RDPBCGR fixed 8-octet
# negotiation structures, MySQL 3-byte packet length, OpenVPN TCP 2-byte length, PostgreSQL Int32 length, BER length)
SELF_DELIMITING = ('TPKT', 'COTPConnectionRequest', 'COTPConnectionConfirm', 'RDPNegotiationRequest',
                   'RDPNegotiationResponse', 'MySQLRecord', 'OpenVpnPacketWrapperTcp', 'SslRequest', 'Sync',
                   'LDAPExtendedRequestStartTLS', 'LDAPExtendedResponseStartTLS')


def both_ways(acc, cls, wire, obj_maker, label, fields_check, w):
    """parse(reference) -> right type + fields;  compose(object built from the fields) == reference"""
    acc.counters['transitions'] = acc.counters.get('transitions', 0) + 2
    try:
        o = cls.parse_exact_size(wire)
    except Exception as e:  # noqa
        acc.violation('%s:reference_rejected:%s' % (label, core.ename(e)), 'specification encoding of a %s rejected: %s'
                      % (cls.__name__, str(e)[:60]), w)
        o = None
    if o is not None:
        if type(o) is not cls:
            acc.violation('%s:wrong_type' % label, 'a %s on the wire is returned as a %s' % (cls.__name__, type(o).__name__), w)
        else:
            bad = fields_check(o)
            if bad:
                acc.violation('%s:fields:%s' % (label, bad), 'field %s of a parsed %s differs from the encoded value'
                              % (bad, cls.__name__), w)
    if o is not None and type(o) is cls and cls.__name__ in SELF_DELIMITING:
        # a PDU that carries its own length is the same PDU when more data follows it in the buffer
        acc.counters['transitions'] = acc.counters.get('transitions', 0) + 2
        for tail in (b'\x03\x00\x00\x0b', wire):
            try:
                o2, n2 = cls.parse_immutable(wire + tail)
            except Exception as e:  # noqa
                acc.violation('%s:followed_by_data:%s' % (label, core.ename(e)), 'specification encoding of a %s is '
                              'rejected when %d more octets follow it' % (cls.__name__, len(tail)), dict(w, tail=tail))
                break
            if n2 != len(wire) or canon.dump(o2, eq=True) != canon.dump(o, eq=True):
                acc.violation('%s:followed_by_data:differs' % label, 'a %s followed by %d more octets parses with n=%d '
                              '(the PDU is %d octets) / to different fields' % (cls.__name__, len(tail), n2, len(wire)),
                              dict(w, tail=tail))
                break
    if obj_maker is not None:
        try:
            got = bytes(obj_maker().compose())
        except Exception as e:  # noqa
            acc.violation('%s:compose_raises:%s' % (label, core.ename(e)), '%s with these fields cannot be composed: %s'
                          % (cls.__name__, str(e)[:60]), w)
            return
        if got != wire:
            i = next((k for k in range(min(len(got), len(wire))) if got[k] != wire[k]), min(len(got), len(wire)))
            acc.violation('%s:layout' % label, '%s composes to bytes that differ from the specification at offset %d'
                          % (cls.__name__, i), dict(w, composed=got[:120], reference=wire[:120]))
    acc.state(core.h64(label, wire))


def _mysql_worker(args):
    part, parts, thorough = args
    acc = core.Acc()
    from cryptoparser.tls import mysql as my
    caps_all = list(my.MySQLCapability)
    lower = [c for c in caps_all if int(c) < 2 ** 16]
    upper = [c for c in caps_all if int(c) >= 2 ** 16]
    lower_mask = word(lower)
    n = 0
    # lower capability words
    if thorough:
        lows = [w_ for w_ in range(2 ** 16) if w_ & ~lower_mask == 0]
    else:
        lows = set()
        for k in range(3):
            for combo in itertools.combinations(lower, k):
                lows.add(word(combo))
                lows.add(lower_mask & ~word(combo))
        lows = sorted(lows)
    uppers = [0, int(my.MySQLCapability.CLIENT_PLUGIN_AUTH), word(upper)]
    for lo in lows:
        for up in uppers:
            n += 1
            if n % parts != part:
                continue
            caps = lo | up
            plugin = bool(caps & int(my.MySQLCapability.CLIENT_PLUGIN_AUTH))
            auth2 = b'\x02' * 13 if plugin else None
            name = 'mysql_native_password' if plugin else None
            wire = ref.mysql_handshake_v10(10, '8.0.33', 0x01020304, b'\x01' * 8, caps, 33, 2, auth2, name)
            cset = members_of(my.MySQLCapability, caps)

            def chk(o, cset=cset, auth2=auth2, name=name):
                if set(o.capabilities) != cset:
                    return 'capabilities'
                if int(o.protocol_version) != 10 or o.server_version != '8.0.33' or o.connection_id != 0x01020304:
                    return 'header'
                if bytes(o.auth_plugin_data) != b'\x01' * 8:
                    return 'auth_plugin_data'
                if (bytes(o.auth_plugin_data_2) if o.auth_plugin_data_2 is not None else None) != auth2:
                    return 'auth_plugin_data_2'
                if o.auth_plugin_name != name:
                    return 'auth_plugin_name'
                if set(o.states) != members_of(my.MySQLStatusFlag, 2):
                    return 'states'
                return None
            both_ways(acc, my.MySQLHandshakeV10, wire, lambda cset=cset, auth2=auth2, name=name: my.MySQLHandshakeV10(
                my.MySQLVersion(10), '8.0.33', 0x01020304, b'\x01' * 8, cset, my.MySQLCharacterSet.UTF8,
                members_of(my.MySQLStatusFlag, 2), auth2, name), 'mysql_handshake', chk, {'kind': 'mysql_handshake', 'caps': caps})
    if part == 0:
        status_mask = word(my.MySQLStatusFlag)
        for st in range(2 ** 16):
            if st & ~status_mask:
                continue
            wire = ref.mysql_handshake_v10(10, 'v', 1, b'\x00' * 8, 0x0800, 33, st)
            both_ways(acc, my.MySQLHandshakeV10, wire, None, 'mysql_status',
                      lambda o, st=st: None if set(o.states) == members_of(my.MySQLStatusFlag, st) else 'states',
                      {'kind': 'mysql_status', 'status': st})
        for cs in my.MySQLCharacterSet:
            for pv in (9, 10):
                for sv in ('', '8.0.33', 'x' * 255):
                    wire = ref.mysql_handshake_v10(pv, sv, 0xffffffff, bytes(range(8)), 0x0800, cs.value.code, 0)
                    both_ways(acc, my.MySQLHandshakeV10, wire, lambda cs=cs, pv=pv, sv=sv: my.MySQLHandshakeV10(
                        my.MySQLVersion(pv), sv, 0xffffffff, bytes(range(8)), {my.MySQLCapability.CLIENT_SSL}, cs, set()),
                        'mysql_handshake', lambda o, cs=cs, sv=sv: None if (o.character_set is cs and o.server_version == sv) else 'charset_version',
                        {'kind': 'mysql_handshake', 'charset': cs.name})
        # auth-plugin data of every length 0..21 (and the maximum 247) x plugin name absent / present x every other
        # capability alone next to CLIENT_PLUGIN_AUTH: the length octet, not another capability, says how long part 2 is
        base_caps = 0x0800 | int(my.MySQLCapability.CLIENT_PLUGIN_AUTH)
        others = [0] + [int(c) for c in my.MySQLCapability if not int(c) & base_caps]
        for alen in list(range(0, 22)) + [247]:
            for name in ('', 'mysql_native_password'):
                for extra in others:
                    caps = base_caps | extra
                    wire = ref.mysql_handshake_v10(10, 'v', 1, b'\x05' * 8, caps, 33, 0, b'\x06' * alen, name)
                    both_ways(acc, my.MySQLHandshakeV10, wire, (lambda caps=caps, alen=alen, name=name: my.MySQLHandshakeV10(
                        my.MySQLVersion(10), 'v', 1, b'\x05' * 8, members_of(my.MySQLCapability, caps),
                        my.MySQLCharacterSet.UTF8_GENERAL_CI if hasattr(my.MySQLCharacterSet, 'UTF8_GENERAL_CI') else
                        [c for c in my.MySQLCharacterSet if c.value.code == 33][0], set(), b'\x06' * alen, name))
                        if alen else None, 'mysql_auth_plugin',
                        lambda o, alen=alen, name=name: None if (bytes(o.auth_plugin_data_2 or b'') == b'\x06' * alen and
                                                                  o.auth_plugin_name == name) else 'auth_plugin',
                        {'kind': 'mysql_auth_plugin', 'len': alen, 'name': name, 'caps': caps})
        for caps, mps, cs in ((0x0800, 0, None), (0x0800, 2 ** 24 - 1, None), (0x0a00, 0, 33), (0x0a00, 2 ** 32 - 1, 8),
                              (0x000a0a00, 2 ** 24, 33)):
            wire = ref.mysql_ssl_request(caps, mps, cs)
            csm = None if cs is None else [m for m in my.MySQLCharacterSet if m.value.code == cs][0]
            both_ways(acc, my.MySQLHandshakeSslRequest, wire,
                      lambda caps=caps, mps=mps, csm=csm: my.MySQLHandshakeSslRequest(members_of(my.MySQLCapability, caps), mps, csm),
                      'mysql_ssl_request', lambda o, caps=caps, mps=mps: None if (set(o.capabilities) == members_of(my.MySQLCapability, caps)
                                                                                  and o.max_packet_size == mps) else 'value',
                      {'kind': 'mysql_ssl_request', 'caps': caps})
        for ln in (0, 1, 255, 256, 65535, 65536):
            for seq in (0, 1, 255):
                wire = ref.mysql_packet(seq, b'p' * ln)
                both_ways(acc, my.MySQLRecord, wire, lambda ln=ln, seq=seq: my.MySQLRecord(seq, b'p' * ln), 'mysql_record',
                          lambda o, ln=ln, seq=seq: None if (o.packet_number == seq and len(o.packet_bytes) == ln) else 'value',
                          {'kind': 'mysql_record', 'len': ln})
        acc.sample({'kind': 'mysql_handshake', 'wire': ref.mysql_handshake_v10(10, '8.0.33', 1, b'\x01' * 8, 0x0800, 33, 2)}, 1)
    return acc.result()


def _named(members):
    """Members by enumeration class and name: IntEnum members of two enumerations compare equal when their values do, a
    response that comes back with the request's flag members has not recovered the encoded values."""
    return sorted((type(x).__name__, getattr(x, 'name', repr(x))) for x in members)


def _rdp_worker(order):
    """order 0: requests before responses, 1: responses before requests (one fresh process each - what one PDU class
    parsed must not colour how the other is read)."""
    acc = core.Acc()
    from cryptoparser.tls import rdp
    for ln in (0, 1, 255, 256, 65531):
        wire = ref.tpkt(b't' * ln)
        both_ways(acc, rdp.TPKT, wire, lambda ln=ln: rdp.TPKT(3, b't' * ln), 'tpkt',
                  lambda o, ln=ln: None if len(o.message) == ln else 'message', {'kind': 'tpkt', 'len': ln})
    for cls, c in ((rdp.COTPConnectionRequest, 0xe), (rdp.COTPConnectionConfirm, 0xd)):
        for dst, src in ((0, 0), (0, 1), (0x1234, 0), (0x1234, 0xabcd), (0xffff, 0xffff)):
            for ud in (b'', b'Cookie: mstshash=u\r\n', ref.rdp_negotiation(1, 0, 3)):
                wire = ref.x224_connection(c, dst, src, 0, ud)
                label = 'x224_%s' % ('request' if c == 0xe else 'confirm')
                both_ways(acc, cls, wire, lambda cls=cls, dst=dst, src=src, ud=ud: cls(src_ref=src, user_data=ud, dst_ref=dst),
                          label + ('' if dst == src else '_refs'),
                          lambda o, dst=dst, src=src, ud=ud: None if (o.dst_ref == dst and o.src_ref == src and bytes(o.user_data) == ud) else 'refs_or_user_data',
                          {'kind': label, 'dst': dst, 'src': src})
    rq, rs = list(rdp.RDPNegotiationRequestFlags), list(rdp.RDPNegotiationResponseFlags)
    protos = [p for p in rdp.RDPProtocol if int(p)]
    pdus = ((rdp.RDPNegotiationRequest, 1, rq), (rdp.RDPNegotiationResponse, 2, rs))
    for cls, t, fl in (pdus if not order else pdus[::-1]):
        for k in range(len(fl) + 1):
            for fs in itertools.combinations(fl, k):
                for j in range(len(protos) + 1):
                    for ps in itertools.combinations(protos, j):
                        wire = ref.rdp_negotiation(t, word(fs), word(ps))
                        both_ways(acc, cls, wire, lambda cls=cls, fs=fs, ps=ps: cls(set(fs), set(ps)), 'rdp_negotiation',
                                  lambda o, fs=fs, ps=ps: None if (_named(o.flags) == _named(fs) and _named(p for p in o.protocol if int(p)) == _named(ps)) else 'flags_protocols',
                                  {'kind': 'rdp_negotiation', 'type': t})
    acc.sample({'kind': 'x224_confirm', 'wire': ref.x224_connection(0xd, 0x1234, 0xabcd, 0, b'')}, 1)
    return acc.result()


def _openvpn_worker(args):
    part, parts = args
    acc = core.Acc()
    from cryptoparser.tls import openvpn as ov
    n = 0
    for nack in range(0, 256):
        n += 1
        if n % parts != part:
            continue
        acks = ([0, 2 ** 32 - 1] + list(range(1, 255)))[:nack]
        for sid, rsid in itertools.product((0, 1, 2 ** 64 - 1),
                                           (0x0102030405060708, 0, 1, 2 ** 64 - 1) if acks else (None,)):
            # ACK
            wire = ref.openvpn_ack(sid, acks, rsid or 0)
            both_ways(acc, ov.OpenVpnPacketAckV1, wire, lambda sid=sid, acks=acks, rsid=rsid: ov.OpenVpnPacketAckV1(sid, rsid, acks),
                      'openvpn_ack', lambda o, sid=sid, acks=acks, rsid=rsid: None if (o.session_id == sid and list(o.packet_id_array) == acks
                                                                                 and o.remote_session_id == rsid) else 'header',
                      {'kind': 'openvpn_ack', 'acks': nack})
            wire = ref.openvpn_control(4, sid, acks, rsid or 0, 7, b'tls')
            both_ways(acc, ov.OpenVpnPacketControlV1, wire,
                      lambda sid=sid, acks=acks, rsid=rsid: ov.OpenVpnPacketControlV1(sid, acks, rsid, 7, b'tls'), 'openvpn_control',
                      lambda o, sid=sid, acks=acks: None if (o.session_id == sid and list(o.packet_id_array) == acks and o.packet_id == 7
                                                             and bytes(o.payload) == b'tls') else 'fields',
                      {'kind': 'openvpn_control', 'acks': nack})
            wire = ref.openvpn_control(8, sid, acks, rsid or 0, 0)
            both_ways(acc, ov.OpenVpnPacketHardResetServerV2, wire,
                      lambda sid=sid, acks=acks, rsid=rsid: ov.OpenVpnPacketHardResetServerV2(sid, rsid, acks, 0), 'openvpn_reset_server',
                      lambda o, sid=sid, acks=acks: None if (o.session_id == sid and list(o.packet_id_array) == acks) else 'fields',
                      {'kind': 'openvpn_reset_server', 'acks': nack})
            # the variant must return the type that is on the wire
            try:
                v = ov.OpenVpnPacketVariant.parse_exact_size(wire)
                if type(v) is not ov.OpenVpnPacketHardResetServerV2:
                    acc.violation('openvpn_variant:wrong_type', 'hard reset server parsed as %s' % type(v).__name__,
                                  {'kind': 'openvpn_variant'})
            except Exception:  # noqa
                pass
    if part == 0:
        for sid in (0, 2 ** 63, 2 ** 64 - 1):
            wire = ref.openvpn_control(7, sid, [], 0, 0)
            both_ways(acc, ov.OpenVpnPacketHardResetClientV2, wire, lambda sid=sid: ov.OpenVpnPacketHardResetClientV2(sid, 0),
                      'openvpn_reset_client', lambda o, sid=sid: None if o.session_id == sid else 'session_id', {'kind': 'openvpn_reset_client'})
        for ln in (0, 1, 255, 256, 65535):
            wire = ref.openvpn_tcp(b'o' * ln)
            both_ways(acc, ov.OpenVpnPacketWrapperTcp, wire, lambda ln=ln: ov.OpenVpnPacketWrapperTcp(b'o' * ln), 'openvpn_tcp',
                      lambda o, ln=ln: None if len(o.payload) == ln else 'payload', {'kind': 'openvpn_tcp', 'len': ln})
        acc.sample({'kind': 'openvpn_ack', 'wire': ref.openvpn_ack(1, [1, 2], 9)}, 1)
    return acc.result()


def _pg_ldap_worker(_):
    acc = core.Acc()
    from cryptoparser.tls import postgresql as pg, ldap
    both_ways(acc, pg.SslRequest, ref.pg_ssl_request(), lambda: pg.SslRequest(), 'pg_ssl_request', lambda o: None,
              {'kind': 'pg_ssl_request'})
    both_ways(acc, pg.Sync, b'S', lambda: pg.Sync(), 'pg_sync', lambda o: None, {'kind': 'pg_sync'})
    both_ways(acc, ldap.LDAPExtendedRequestStartTLS, ref.ldap_starttls_request(), lambda: ldap.LDAPExtendedRequestStartTLS(),
              'ldap_request', lambda o: None, {'kind': 'ldap_request'})
    for rc in ldap.LDAPResultCode:
        wire = ref.ldap_starttls_response(int(rc))
        both_ways(acc, ldap.LDAPExtendedResponseStartTLS, wire, lambda rc=rc: ldap.LDAPExtendedResponseStartTLS(rc), 'ldap_response',
                  lambda o, rc=rc: None if o.result_code == rc else 'result_code', {'kind': 'ldap_response', 'code': int(rc)})
        # a response parsed with the request class (and vice versa) must not come back silently as the other type
        for cls, wire2, other in ((ldap.LDAPExtendedRequestStartTLS, wire, 'response'),
                                  (ldap.LDAPExtendedResponseStartTLS, ref.ldap_starttls_request(), 'request')):
            acc.counters['transitions'] = acc.counters.get('transitions', 0) + 1
            try:
                o = cls.parse_exact_size(wire2)
                acc.violation('ldap:%s_accepted_as_other_type' % other, 'an LDAP StartTLS %s is accepted by %s'
                              % (other, cls.__name__), {'kind': 'ldap_cross', 'other': other})
            except Exception:  # noqa
                pass
    for mid in (0, 1, 127, 128, 2 ** 31 - 1):
        wire = ref.ldap_starttls_response(0, mid, b'dc=x', b'diag')
        both_ways(acc, ldap.LDAPExtendedResponseStartTLS, wire, None, 'ldap_response',
                  lambda o: None if o.result_code == ldap.LDAPResultCode.SUCCESS else 'result_code', {'kind': 'ldap_response', 'mid': mid})
    # lengths around the DER short / long form boundaries (127/128, 255/256, 65535/65536) of every nesting level: a
    # diagnosticMessage or matchedDN of n octets moves the enclosing lengths across them one after the other
    for n in list(range(100, 135)) + [0, 1, 2, 240, 250, 255, 256, 257, 300, 65400, 65535, 65536, 70000]:
        for dn, diag in ((b'', b'd' * n), (b'm' * n, b''), (b'm' * (n // 2), b'd' * (n - n // 2))):
            wire = ref.ldap_starttls_response(0, 1, dn, diag)
            both_ways(acc, ldap.LDAPExtendedResponseStartTLS, wire, None, 'ldap_response_len',
                      lambda o: None if o.result_code == ldap.LDAPResultCode.SUCCESS else 'result_code',
                      {'kind': 'ldap_response_len', 'n': n, 'dn': len(dn), 'diag': len(diag)})
    # BER, not DER: RFC 4511 s5.1 restricts LDAP to the definite length form but does not demand the minimal number of
    # length octets (Active Directory writes 30 84 00 00 00 nn ...).  Every assignment of {minimal, 1, 4} length octets
    # to the TLVs of a request and of a response (with and without responseName) is a conformant encoding of the same
    # values.
    oid = b'1.3.6.1.4.1.1466.20037'
    for forms in itertools.product((0, 1, 4), repeat=4):
        f = dict(zip(('msg', 'id', 'op', 'name'), forms))
        if not any(forms):
            continue
        both_ways(acc, ldap.LDAPExtendedRequestStartTLS, ref.ldap_starttls_request(1, f), None, 'ldap_request_ber',
                  lambda o: None, {'kind': 'ldap_ber', 'what': 'request', 'forms': f})
    for name in (None, oid):
        keys = ('msg', 'id', 'op', 'code', 'dn', 'diag') + (('name',) if name else ())
        for forms in itertools.product((0, 1, 4), repeat=len(keys)):
            f = dict(zip(keys, forms))
            if not any(forms):
                continue
            for rc in (ldap.LDAPResultCode.SUCCESS, ldap.LDAPResultCode.PROTOCOL_ERROR):
                both_ways(acc, ldap.LDAPExtendedResponseStartTLS,
                          ref.ldap_starttls_response(int(rc), 1, b'', b'', f, name), None, 'ldap_response_ber',
                          lambda o, rc=rc: None if o.result_code == rc else 'result_code',
                          {'kind': 'ldap_ber', 'what': 'response', 'forms': f, 'code': int(rc), 'name': bool(name)})
    acc.sample({'kind': 'ldap_response', 'wire': ref.ldap_starttls_response(0)}, 1)
    acc.sample({'kind': 'ldap_ber', 'wire': ref.ldap_starttls_response(0, 1, b'', b'', {'msg': 4, 'op': 4})}, 1)
    return acc.result()


def _defaults_worker(i):
    """A message built with default arguments is composed exactly as its specification lays out *those* values, also
    after another instance of its class was built and edited in place (fresh process per class): construct, note
    the composed bytes; construct a second instance, edit every mutable part of it in place; construct a third -
    its bytes must be the first one's."""
    import copy
    from mc.props import c13
    acc = core.Acc()
    cands = [t for t in c13.constructible_with_defaults()
             if t[0].__module__ in ('cryptoparser.tls.mysql', 'cryptoparser.tls.rdp', 'cryptoparser.tls.openvpn',
                                    'cryptoparser.tls.postgresql', 'cryptoparser.tls.ldap')]
    if i >= len(cands):
        return acc.result()
    cls, kwargs, defaulted = cands[i]

    def build():
        return cls(**copy.deepcopy(kwargs))
    try:
        b0, b1 = bytes(build().compose()), bytes(build().compose())
        events = c13.mutable_paths_events(build())
    except Exception:  # noqa
        return acc.result()
    if b0 != b1:
        return acc.result()     # non-deterministic defaults: not comparable this way
    for path, mutate in events:
        try:
            a = build()
            mutate(a)
            c = build()
            bc = bytes(c.compose())
        except Exception:  # noqa
            continue
        acc.counters['transitions'] = acc.counters.get('transitions', 0) + 1
        acc.state(core.h64('defaults', cls.__name__, path))
        if bc != b0:
            acc.violation('defaults:%s:layout_after_history' % cls.__name__,
                          'a %s built with the same arguments composes differently after %s of an earlier instance '
                          'was edited in place' % (cls.__name__, path),
                          {'kind': 'defaults', 'index': i, 'cls': cls.__name__, 'path': path,
                           'first': b0[:120], 'later': bc[:120]})
            break
    return acc.result()


def run(ctx):
    ctx.pmap(_mysql_worker, [(p, 16, True) for p in range(16)])
    ctx.pmap(_rdp_worker, [0, 1], fresh=True)
    ctx.pmap(_defaults_worker, list(range(24)), fresh=True)
    ctx.pmap(_openvpn_worker, [(p, 16) for p in range(16)])
    ctx.pmap(_pg_ldap_worker, [0], nproc=1)
    ctx.assumptions += ['reference encoders written from the MySQL protocol documentation, RFC 1006, X.224 s13.3/13.4, '
                        'MS-RDPBCGR, the OpenVPN protocol description, the PostgreSQL protocol and RFC 4511 (DER)']
    return ctx.finish(rule='MySQL HandshakeV10: every lower capability word over the defined bits x 3 '
                           'upper words, all defined status words, every character set x 2 versions x 3 version strings, '
                           'auth-plugin lengths {0,1,12,13,247}; SSLRequest both layouts; packet lengths; TPKT lengths; '
                           'X.224 CR/CC x 5 reference pairs x 3 user data; all RDP flag x protocol subsets; OpenVPN 4 packet '
                           'classes x ack arrays of every length 0..255 x 3 session ids; PostgreSQL; LDAP request and '
                           'response with every result code; type-confusion clauses')


def replay(ctx, w):
    k = w['kind']
    if k.startswith('mysql'):
        res = _mysql_worker((0, 1, False))
    elif k in ('tpkt', 'rdp_negotiation') or k.startswith('x224'):
        res = _rdp_worker(0)
    elif k == 'defaults':
        res = _defaults_worker(w['index'])
    elif k.startswith('openvpn'):
        res = _openvpn_worker((0, 1))
    else:
        res = _pg_ldap_worker(0)
    for v in res[1]:
        if v['witness'].get('kind') == k:
            return v
    return None
