"""C05 - re-serialising an accepted input is a stable canonical form.

Inputs: every input ACCEPTED while enumerating the byte families of C02 (seeds, truncations, substitutions,
deletions/insertions, cross-class seeds) plus targeted non-canonical generators (date layouts x zone designators,
TXT partitions, SCSV placements, all DNSKEY flag words, MySQL words with unknown bits).
Oracle: parse -> compose -> parse -> equal, consumes all, compose again gives the same bytes.
"""
import itertools
import re

from mc import bytefam, canon, classes, core
from mc.props import c01, c02

_FULL_DATE = re.compile(rb'\d{1,2}[ -][A-Za-z]{3}[ -]\d{2,4} \d\d:\d\d:\d\d|[A-Za-z]{3} [ \d]\d \d\d:\d\d:\d\d \d{4}')


def check_input(acc, cls, qn, data, tag):
    """Returns True if the input was accepted."""
    doc = classes.documented_errors()
    acc.counters['transitions'] = acc.counters.get('transitions', 0) + 1
    try:
        o1, n = cls.parse_immutable(data)
    except core.Timeout:
        raise
    except Exception:  # noqa  (rejected, or a C02 leak)
        return False
    acc.counters['accepted'] = acc.counters.get('accepted', 0) + 1
    from cryptoparser.common.parse import ParsableBaseNoABC
    if not hasattr(o1, 'compose'):
        return True     # code-point factories return enum members without a composer
    definer = c01.compose_definer(o1)
    w = {'cls': qn, 'data': data, 'family': tag}
    try:
        b2 = o1.compose()
    except core.Timeout:
        raise
    except Exception as e:  # noqa
        acc.violation('compose_fails:%s:%s' % (c01.leak_site(e) or definer, core.ename(e)),
                      'the object parsed from an accepted input cannot be composed: %s %s'
                      % (core.ename(e), str(e)[:80]), w)
        return True
    b2 = bytes(b2)
    pcls = type(o1) if isinstance(o1, ParsableBaseNoABC) and type(o1) is not cls and hasattr(type(o1), '_parse') else cls
    wire = b2
    try:
        o2, n2 = pcls.parse_immutable(wire)
    except core.Timeout:
        raise
    except Exception as e:  # noqa
        o2 = None
        if c01.needs_terminator(pcls):
            try:
                o2, n2 = pcls.parse_immutable(b2 + b'\r\n')
            except Exception as e2:  # noqa
                e = e2
        if o2 is None:
            acc.violation('recomposed_rejected:%s:%s' % (definer, core.ename(e)),
                          'compose() of an accepted %s is rejected by the parser: %s %s'
                          % (cls.__name__, core.ename(e), str(e)[:80]), dict(w, recomposed=b2))
            return True
    if n2 != len(b2):
        acc.violation('recomposed_not_all_consumed:%s' % definer, 're-parse consumed %d of %d recomposed bytes'
                      % (n2, len(b2)), dict(w, recomposed=b2))
    d1, d2 = canon.dump(o1, eq=True), canon.dump(o2, eq=True)
    if d1 != d2:
        dp = canon.first_diff(d1, d2)
        own = c01.owner_of(o1, dp)
        kind = canon.diff_kind(d1, d2)
        if kind.startswith('dt') and not _FULL_DATE.search(bytes(data)):
            # no complete date in the input: dateutil completed it from the current date (a different root cause
            # than time-zone arithmetic on a complete date, and not deterministic from day to day)
            kind += ':partial_date_text'
        acc.violation('meaning_changed:%s:%s:%s' % (c01.compose_definer(own), c01.generic_path(dp).rsplit('.', 1)[-1],
                                                    kind),
                      'parse(compose(parse(input))) differs from parse(input) at %s' % dp, dict(w, recomposed=b2))
        return True
    try:
        b3 = bytes(o2.compose())
    except Exception as e:  # noqa
        acc.violation('second_compose_fails:%s:%s' % (definer, core.ename(e)), 'second compose raises', w)
        return True
    if b3 != b2:
        acc.violation('not_idempotent:%s' % definer, 'canonicalisation does not terminate in one step: second '
                      'compose differs from the first', dict(w, recomposed=b2))
    return True


def _seed_worker(args):
    qn, kind, idx, thorough = args
    acc = core.Acc()
    cls = classes.class_by_name(qn)
    ss = c02.all_seeds(qn)
    with core.watchdog(900):
        if kind == 'seed':
            seed = ss[idx]
            acc.state(core.h64(qn, seed))
            check_input(acc, cls, qn, seed, ('seed',))
            gens = [bytefam.i1_truncations(seed), bytefam.i2_substitutions(seed, thorough),
                    bytefam.i3_del_ins(seed, thorough)]
            if thorough:
                gens.append(bytefam.i4_pairs(seed, True))
            # accepted by construction more often than not: every other registered name in place of a name (I11),
            # library-defined constants at every offset (I12)
            gens += [bytefam.i11_names(seed), bytefam.i12_magic(seed) if len(seed) <= 600 else ()]
            for gen in gens:
                for tag, data in gen:
                    if check_input(acc, cls, qn, data, tag):
                        acc.state(core.h64(qn, data))
            if idx == 0:
                acc.sample({'cls': qn, 'accepted_seed': seed}, 1)
        elif kind == 'cross':
            fam = classes.family(qn)
            for q2, b, o in classes.corpus():
                if classes.family(q2) == fam and q2 != qn:
                    if check_input(acc, cls, qn, b, ('cross', q2)):
                        acc.state(core.h64(qn, b))
        elif kind == 'short':
            for tag, data in bytefam.i5_short(ss, thorough):
                if check_input(acc, cls, qn, data, tag):
                    acc.state(core.h64(qn, data))
        elif kind == 'tokens':
            for tag, data in bytefam.i6_tokens(ss, 4 if thorough else 3):
                if check_input(acc, cls, qn, data, tag):
                    acc.state(core.h64(qn, data))
    return acc.result()


def _composed_worker(args):
    """Inputs obtained by composing every object within one deviation of every seed object (values the byte
    families do not reach: boundary integers, every enum member, empty / maximal lists)."""
    qn, idx = args
    acc = core.Acc()
    from mc import objects
    cls = classes.class_by_name(qn)
    objs = objects.seed_objects().get(cls, [])
    if idx >= len(objs):
        return acc.result()
    import enum
    if isinstance(objs[idx], enum.Enum):
        return acc.result()
    with core.watchdog(900):
        for path, o, stats in objects.neighbourhood(objs[idx], 1, False, 3000):
            try:
                data = bytes(o.compose())
            except Exception:  # noqa
                continue
            if c01.needs_terminator(cls):
                continue
            if check_input(acc, cls, qn, data, ('composed',) + tuple(path)):
                acc.state(core.h64(qn, data))
    return acc.result()


# ---- targeted non-canonical generators ---------------------------------------------------------------------
def date_spellings():
    layouts = ['Wed, 21 Oct 2015 07:28:00 %s', 'Wednesday, 21-Oct-15 07:28:00 %s', 'Wed Oct 21 07:28:00 2015 %s',
               '21 Oct 2015 07:28:00 %s', '2015-10-21 07:28:00 %s', 'Thu, 01 Jan 1970 00:00:00 %s']
    zones = ['GMT', 'UTC', 'Z', '+0000', '+0100', '-0330', '+1400', 'EST', '']
    for lay in layouts:
        for z in zones:
            yield (lay % z).strip().encode('ascii')
    # finer and coarser resolutions than the canonical form has: fractional seconds, no seconds, no time, a
    # leap second, 24:00, two-digit and five-digit years
    for t in ('07:28:00.5', '07:28:00.000001', '07:28:00,5', '07:28', '07', '', '23:59:60', '24:00:00', '7:28:00',
              '07:28:00 AM', '07:28:00 PM'):
        for z in ('GMT', '+0100', ''):
            yield ('Wed, 21 Oct 2015 %s %s' % (t, z)).strip().encode('ascii')
            yield ('2015-10-21T%s%s' % (t, {'GMT': 'Z', '': ''}.get(z, z))).strip().encode('ascii')
    for y in ('15', '69', '70', '99', '00', '0015', '10000', '9999', '0001'):
        yield ('Wed, 21 Oct %s 07:28:00 GMT' % y).encode('ascii')
    for y in ('0001', '0002', '0069', '0099', '0100', '0999', '1000'):      # layouts that can name the years below 1000
        yield ('%s0101' % y).encode('ascii')
        yield ('%s-01-01T00:00:00Z' % y).encode('ascii')
        yield ('%s-01-01 00:00:00 +0100' % y).encode('ascii')


def txt_partitions():
    for total in (1, 2, 255, 256, 300):
        text = bytes((0x61 + i % 26) for i in range(total))
        for k in (1, 2, 3):
            for cuts in itertools.combinations(range(1, total), k - 1):
                if k == 3 and total > 2 and not (cuts[0] in (1, total // 3, 255) and cuts[1] in (2, total // 2, total - 1, 256)):
                    continue
                if k == 2 and total > 2 and cuts[0] not in (1, 2, total // 2, 255, total - 1):
                    continue
                pts = (0,) + cuts + (total,)
                parts = [text[a:b] for a, b in zip(pts, pts[1:])]
                if any(len(p) > 255 for p in parts):
                    continue
                yield b''.join(bytes((len(p),)) + p for p in parts)


def _targeted_worker(args):
    which, part, parts = args
    acc = core.Acc()
    if which == 'dates':
        for qn in ('cryptoparser.common.field.FieldValueDateTime', 'cryptoparser.httpx.header.HttpHeaderFieldValueDate',
                   'cryptoparser.httpx.header.HttpHeaderFieldValueExpires',
                   'cryptoparser.httpx.header.HttpHeaderFieldValueLastModified'):
            cls = classes.class_by_name(qn)
            for data in date_spellings():
                if check_input(acc, cls, qn, data, ('date',)):
                    acc.state(core.h64(qn, data))
        qn = 'cryptoparser.httpx.parse.HttpHeaderFieldValueComponentExpires'
        cls = classes.class_by_name(qn)
        for data in date_spellings():
            if check_input(acc, cls, qn, b'expires=' + data, ('date',)):
                acc.state(core.h64(qn, data))
        acc.sample({'date_spelling': 'Wed, 21 Oct 2015 07:28:00 +0100'}, 1)
    elif which == 'txt':
        qn = 'cryptoparser.dnsrec.record.DnsRecordTxt'
        cls = classes.class_by_name(qn)
        for data in txt_partitions():
            if check_input(acc, cls, qn, data, ('txt-partition',)):
                acc.state(core.h64(qn, data))
        acc.sample({'txt': 'two character-strings', 'rdata': b'\x01a\x01b'}, 1)
    elif which == 'scsv':
        from mc import layers
        qn = 'cryptoparser.tls.subprotocol.TlsHandshakeClientHello'
        cls = classes.class_by_name(qn)
        base = dict(layers.handshake_messages())['client_hello']
        # locate the cipher-suite vector: 4 (hs header) + 2 (version) + 32 (random) + 1 + sid
        off = 4 + 2 + 32
        sid = base[off]
        cs_off = off + 1 + sid
        cs_len = int.from_bytes(base[cs_off:cs_off + 2], 'big')
        rest = base[cs_off + 2 + cs_len:]
        ordinary = [b'\x00\x2f', b'\x13\x01', b'\xc0\x2b']
        for k in range(0, 4):
            for ords in itertools.permutations(ordinary, k):
                for scsvs in ([], [b'\x00\xff'], [b'\x56\x00'], [b'\x00\xff', b'\x56\x00'], [b'\x00\xff', b'\x00\xff']):
                    items = list(ords) + scsvs
                    for perm in set(itertools.permutations(items)):
                        if not perm:
                            continue
                        body = b''.join(perm)
                        payload = base[4:cs_off] + len(body).to_bytes(2, 'big') + body + rest
                        data = base[:1] + len(payload).to_bytes(3, 'big') + payload
                        if check_input(acc, cls, qn, data, ('scsv',)):
                            acc.state(core.h64(qn, data))
        acc.sample({'client_hello_suites': '002f 00ff 1301 5600'}, 1)
    elif which == 'dnskey':
        qn = 'cryptoparser.dnsrec.record.DnsRecordDnskey'
        cls = classes.class_by_name(qn)
        for seed in c02.seeds_of(qn)[:3]:
            for word in range(part, 65536, parts):
                data = word.to_bytes(2, 'big') + seed[2:]
                if check_input(acc, cls, qn, data, ('dnskey-flags',)):
                    acc.state(core.h64(qn, word, seed[:8]))
        acc.sample({'dnskey': 'all 2^16 flag words'}, 1)
    elif which == 'mysql':
        qn = 'cryptoparser.tls.mysql.MySQLHandshakeV10'
        cls = classes.class_by_name(qn)
        for seed in c02.seeds_of(qn):
            # capability lower word at: 1 + len(server_version)+1 + 4 + 8 + 1
            z = seed.index(b'\x00', 1)
            cap = z + 1 + 4 + 8 + 1
            st = cap + 2 + 1
            for off in (cap, st, st + 2):
                base = int.from_bytes(seed[off:off + 2], 'little')
                for i, j in itertools.combinations_with_replacement(range(16), 2):
                    word = base ^ (1 << i) ^ (1 << j if j != i else 0)
                    data = seed[:off] + word.to_bytes(2, 'little') + seed[off + 2:]
                    if check_input(acc, cls, qn, data, ('mysql-word',)):
                        acc.state(core.h64(qn, off, word))
        acc.sample({'mysql': 'capability/status words with <=2 flipped bits'}, 1)
    return acc.result()


ZONES = ('America/New_York', 'Asia/Kolkata', 'Pacific/Chatham', 'Europe/London')


def _zone_worker(args):
    """The process time zone is part of the configuration the property quantifies over ("for all accepted inputs"
    holds in every process): every corpus seed of every class is re-checked with TZ set to a zone west of UTC, one
    with a half-hour offset, one with a 45-minute offset and DST, and one that equals UTC only in winter."""
    import os
    import time
    zone, part, parts = args
    acc = core.Acc()
    os.environ['TZ'] = zone
    time.tzset()
    k = 0
    for cls in classes.parse_entry_classes():
        qn = classes.qualname(cls)
        for seed in c02.seeds_of(qn):
            k += 1
            if k % parts != part:
                continue
            sub = core.Acc()
            check_input(sub, cls, qn, seed, ('seed',))
            acc.counters['transitions'] = acc.counters.get('transitions', 0) + sub.counters.get('transitions', 0)
            for sig, v in sub.violations.items():
                w = dict(v['witness'], zone=zone)
                acc.violation('tz:%s' % sig, 'under TZ=%s: %s' % (zone, v.get('what', '')), w)
            acc.state(core.h64('tz', zone, qn, seed))
    return acc.result()


def run(ctx):
    thorough = not ctx.quick
    items = []
    for cls in classes.parse_entry_classes():
        qn = classes.qualname(cls)
        ss = c02.all_seeds(qn)
        for i in range(len(ss)):
            items.append((qn, 'seed', i, thorough))
        items.append((qn, 'cross', 0, thorough))
        items.append((qn, 'short', 0, thorough))
        if bytefam.is_texty(ss):
            items.append((qn, 'tokens', 0, thorough))
    ctx.pmap(_seed_worker, items)
    from mc import objects
    so = objects.seed_objects()
    citems = []
    for cls in classes.parsable_classes():
        for i in range(len(so.get(cls, []))):
            citems.append((classes.qualname(cls), i))
    ctx.pmap(_composed_worker, citems)
    ctx.pmap(_zone_worker, [(z, p, 4) for z in (ZONES if thorough else ZONES[:3]) for p in range(4)], fresh=True)
    from mc import history
    history.explore_orders(ctx, 'parse and re-serialisation of an accepted input',
                           lambda cls: 'history:%s:depends_on_what_was_parsed_before' % cls,
                           orders=('forward', 'reverse', 'byhash') if ctx.quick else
                           ('forward', 'reverse', 'byhash', 'forward', 'reverse'))
    ctx.pmap(_targeted_worker, [('dates', 0, 1), ('txt', 0, 1), ('scsv', 0, 1), ('mysql', 0, 1)] +
             [('dnskey', p, 32) for p in range(32)])
    ctx.assumptions += ['only inputs the parser accepts are subject to the property; rejected inputs and '
                        'undocumented exceptions belong to C02',
                        'equality = equal canonical dumps; aware datetimes compare by instant']
    return ctx.finish(rule='every ACCEPTED input among: seeds, all truncations, single-byte substitutions (B9 quick / '
                           '256 thorough), deletions, B5 insertions, short strings, token sequences, cross-class seeds, compositions of every object within one deviation of the seeds; '
                           'plus 54 date spellings x 5 classes, TXT partitions, SCSV placements (all permutations of '
                           '<=3 suites + SCSVs), all 2^16 DNSKEY flag words, MySQL words with <=2 flipped bits; '
                           'every corpus seed again under 3 (thorough 4) non-UTC process time zones; every seed observed in a pristine process of its own class and in 3 global parse orders over all classes; states = distinct accepted inputs')


def replay(ctx, w):
    acc = core.Acc()
    cls = classes.class_by_name(w['cls'])
    if w.get('kind') == 'order_history':
        from mc import history
        # the poisoning prefix is the whole pass: re-run that pass and the class alone
        history.explore_orders(ctx, 'replay', lambda c: 'history:%s:depends_on_what_was_parsed_before' % c,
                               orders=(w['order'],))
        for v, n in list(ctx.violations.values()) + list(ctx.known_hits.values()):
            if v['witness'].get('cls') == w['cls']:
                return v
        return None
    if w.get('zone'):
        import os
        import time
        os.environ['TZ'] = w['zone']
        time.tzset()
        check_input(acc, cls, w['cls'], bytes.fromhex(w['data']['hex']), tuple(w.get('family', ())))
        vs = list(acc.violations.values())
        if vs:
            vs[0]['signature'] = 'tz:' + vs[0]['signature']
        return vs[0] if vs else None
    check_input(acc, cls, w['cls'], bytes.fromhex(w['data']['hex']), tuple(w.get('family', ())))
    vs = list(acc.violations.values())
    return vs[0] if vs else None
