"""C07 - SSH banner, packets, key exchange messages and host keys follow the RFCs.

Reference: mc/ref/ssh_ref.py (written from RFC 4251/4253/4419/5656/8709 and PROTOCOL.certkeys).
Oracles: compose == ref.encode(fields); ref.decode(compose) == fields; parse(ref.encode(fields)) recovers fields;
packet rule straight from RFC 4253 s6 for every payload length.
"""
import itertools

from mc import canon, classes, core, objects
from mc.ref import ssh_ref as ref

CURVES = {'SECP256R1': ('nistp256', 32), 'PRIME256V1': ('nistp256', 32), 'SECP384R1': ('nistp384', 48),
          'SECP521R1': ('nistp521', 66)}   # RFC 5656 s10.1 names; prime256v1 is the ANSI name of secp256r1


# ---- bridges: public attributes -> plain fields -> reference bytes ------------------------------------------------
def key_specific_fields(obj):
    """Key-type specific part of a host key / certificate (without the leading algorithm name)."""
    params = obj.public_key.params
    tname = type(params).__name__
    if tname == 'PublicKeyParamsRsa':
        return ref.mpint(params.public_exponent) + ref.mpint(params.modulus)
    if tname == 'PublicKeyParamsDsa':
        return ref.mpint(params.prime) + ref.mpint(params.order) + ref.mpint(params.generator) + \
            ref.mpint(params.public_key_value)
    if tname == 'PublicKeyParamsEcdsa':
        cid, size = CURVES[params.named_group.name]
        q = b'\x04' + params.point_x.to_bytes(size, 'big') + params.point_y.to_bytes(size, 'big')
        return ref.string(cid) + ref.string(q)
    if tname == 'PublicKeyParamsEddsa':
        return ref.string(bytes(params.key_data))
    raise KeyError(tname)


def key_blob(obj):
    return ref.string(obj.host_key_algorithm.value.code) + key_specific_fields(obj)


def epoch(dt):
    import datetime
    if dt is None:
        return 2 ** 64 - 1
    if dt.tzinfo is None:
        dt = dt.replace(tzinfo=datetime.timezone.utc)
    return int((dt - datetime.datetime(1970, 1, 1, tzinfo=datetime.timezone.utc)).total_seconds())


def option_pairs(vec):
    """[(name, data)] of critical options / extensions per PROTOCOL.certkeys: data is the contents of the option's
    'string data' - for options with a value, itself a packed string."""
    out = []
    for it in vec:
        tn = type(it).__name__
        if tn == 'SshCertExtensionUnparsed':
            out.append((it.extension_name, bytes(it.extension_data)))
        elif tn == 'SshCertExtensionForceCommand':
            out.append((it.extension_name.value.code, ref.string(it.command.encode('ascii'))))
        elif tn == 'SshCertExtensionSourceAddress':
            out.append((it.extension_name.value.code, ref.string(','.join(str(a) for a in it.addresses).encode('ascii'))))
        else:
            out.append((it.extension_name.value.code, b''))
    return out


def cert_blob(obj):
    name = obj.host_key_algorithm.value.code
    sigkey = any_blob(obj.signature_key)
    sig = ref.string(obj.signature.signature_type.value.code) + ref.string(bytes(obj.signature.signature_data))
    principals = [p.value for p in obj.valid_principals]
    if hasattr(obj, 'serial'):
        return ref.cert_v01(name, bytes(obj.nonce), key_specific_fields(obj), obj.serial, obj.certificate_type.value.code,
                            obj.key_id, principals, epoch(obj.valid_after), epoch(obj.valid_before),
                            option_pairs(obj.critical_options), option_pairs(obj.extensions), bytes(obj.reserved),
                            sigkey, sig)
    return ref.cert_v00(name, key_specific_fields(obj), obj.certificate_type.value.code, obj.key_id, principals,
                        epoch(obj.valid_after), epoch(obj.valid_before), option_pairs(obj.constraints),
                        bytes(obj.nonce), bytes(obj.reserved), sigkey, sig)


def any_blob(obj):
    if hasattr(obj, 'certificate_type'):
        return cert_blob(obj)
    return key_blob(obj)


def names(vec):
    return [x if isinstance(x, str) else x.value.code for x in vec]


KEXINIT_LISTS = ('kex_algorithms', 'host_key_algorithms', 'encryption_algorithms_client_to_server',
                 'encryption_algorithms_server_to_client', 'mac_algorithms_client_to_server',
                 'mac_algorithms_server_to_client', 'compression_algorithms_client_to_server',
                 'compression_algorithms_server_to_client', 'languages_client_to_server', 'languages_server_to_client')


def kexinit_bytes(o):
    lists = []
    for n in KEXINIT_LISTS:
        v = getattr(o, n)
        if n.startswith('languages'):
            lists.append([bytes(x.compose()).decode('ascii') if hasattr(x, 'compose') else str(x) for x in v])
        else:
            lists.append(names(v))
    return ref.kexinit(bytes(o.cookie), lists, bool(o.first_kex_packet_follows), o.reserved)


def message_bytes(o):
    tn = type(o).__name__
    if tn == 'SshKeyExchangeInit':
        return kexinit_bytes(o)
    if tn == 'SshDisconnectMessage':
        return ref.disconnect(int(o.reason), o.description, o.language)
    if tn == 'SshUnimplementedMessage':
        return ref.unimplemented(o.sequence_number)
    if tn == 'SshNewKeys':
        return ref.newkeys()
    if tn == 'SshDHKeyExchangeInit':
        return ref.kexdh_init(bytes(o.ephemeral_public_key), 30)
    if tn == 'SshDHGroupExchangeInit':
        return ref.kexdh_init(bytes(o.ephemeral_public_key), 32)
    if tn == 'SshDHKeyExchangeReply':
        return ref.kexdh_reply(any_blob(o.host_public_key), bytes(o.ephemeral_public_key), bytes(o.signature), 31)
    if tn == 'SshDHGroupExchangeReply':
        return ref.kexdh_reply(any_blob(o.host_public_key), bytes(o.ephemeral_public_key), bytes(o.signature), 33)
    if tn == 'SshDHGroupExchangeRequest':
        return ref.gex_request(o.gex_min, o.gex_number, o.gex_max)
    if tn == 'SshDHGroupExchangeGroup':
        return ref.gex_group(bytes(o.p), bytes(o.g))
    return None


def reference_bytes(o):
    """Reference encoding of a library object from its public attributes, or None if this class has no bridge."""
    tn = type(o).__name__
    if tn.startswith('SshHostKey') and hasattr(o, 'public_key'):
        return key_blob(o)
    if tn.startswith('SshHostCertificate'):
        return cert_blob(o)
    if tn == 'SshProtocolMessage':
        sv = o.software_version
        return ref.banner('%d.%d' % (int(o.protocol_version.major), o.protocol_version.minor),
                          bytes(sv.compose()).decode('ascii') if hasattr(sv, 'compose') else str(sv), o.comment)
    return message_bytes(o)


# ---- (1) padding rule, every payload length ----------------------------------------------------------------------------
def _padding_worker(args):
    variant, lo, hi = args
    acc = core.Acc()
    from cryptoparser.ssh import record as sr, subprotocol as ss
    rcls = {'init': sr.SshRecordInit, 'kexdh': sr.SshRecordKexDH, 'kexdhgroup': sr.SshRecordKexDHGroup}[variant]
    for L in range(lo, hi):
        if variant == 'init':
            if L == 5:
                msg = ss.SshUnimplementedMessage(7)
            elif L >= 13:
                msg = ss.SshDisconnectMessage(ss.SshReasonCode.BY_APPLICATION, 'd' * (L - 13), '')
            else:
                acc.count('payload_length_not_constructible')
                continue
        else:
            if L == 1:
                msg = ss.SshNewKeys()
            elif L >= 5:
                mcls = ss.SshDHKeyExchangeInit if variant == 'kexdh' else ss.SshDHGroupExchangeInit
                msg = mcls(b'\x01' * (L - 5))
            else:
                acc.count('payload_length_not_constructible')
                continue
        acc.counters['transitions'] = acc.counters.get('transitions', 0) + 2
        w = {'kind': 'padding', 'variant': variant, 'payload_length': L}
        rec = rcls(msg)
        try:
            wire = bytes(rec.compose())
        except Exception as e:  # noqa
            acc.violation('packet:compose_raises:%s' % core.ename(e), 'packet with %d-byte payload cannot be composed'
                          % L, w)
            continue
        payload = message_bytes(msg)
        if len(payload) != L:
            acc.violation('message:length', 'message expected to be %d bytes is %d by the reference' % (L, len(payload)), w)
        for rule in ref.packet_rule_violations(wire, len(payload)):
            acc.violation('packet:%s' % rule, 'payload length %d: %s (total %d bytes, padding %d)'
                          % (L, rule, len(wire), wire[4] if len(wire) > 4 else -1), w)
        try:
            d = ref.decode_packet(wire)
            if d['payload'] != payload:
                acc.violation('packet:payload_differs', 'payload in the packet differs from the reference encoding', w)
        except Exception:  # noqa
            pass
        try:
            back = rcls.parse_exact_size(wire)
            if canon.dump(back, eq=True) != canon.dump(rec, eq=True):
                acc.violation('packet:roundtrip', 'packet does not parse back to the same message', w)
        except Exception as e:  # noqa
            acc.violation('packet:parse_raises:%s' % core.ename(e), 'composed packet (payload %d) rejected' % L, w)
        acc.state(core.h64('pad', variant, L))
    if lo <= 13 < hi:
        acc.sample({'kind': 'padding', 'variant': variant, 'payload_length': 13}, 1)
    return acc.result()


# ---- (2) integers as key parameters ------------------------------------------------------------------------------------
def boundary_ints(nmax):
    vals = set()
    for k in range(1, nmax // 8 + 1):
        for bits in (8 * k - 1, 8 * k, 8 * k + 1):
            for d in (-1, 0, 1):
                v = (1 << bits) + d
                if v > 0:
                    vals.add(v)
    return sorted(vals)


def _keyparam_worker(args):
    part, parts, nmax = args
    acc = core.Acc()
    from cryptodatahub.common.key import PublicKey, PublicKeyParamsRsa, PublicKeyParamsDsa
    from cryptodatahub.ssh.algorithm import SshHostKeyAlgorithm
    from cryptoparser.ssh.key import SshHostKeyRSA, SshHostKeyDSS
    vals = boundary_ints(nmax)
    for i, n in enumerate(vals):
        if i % parts != part:
            continue
        for e in (3, 65537, (1 << 32) + 1):
            acc.counters['transitions'] = acc.counters.get('transitions', 0) + 2
            w = {'kind': 'rsa', 'e': hex(e), 'n': hex(n)}
            blob = ref.key_rsa(e, n)
            try:
                o = SshHostKeyRSA(SshHostKeyAlgorithm.SSH_RSA, PublicKey.from_params(PublicKeyParamsRsa(modulus=n, public_exponent=e)))
                got = bytes(o.compose())
            except Exception as ex:  # noqa
                acc.violation('rsa:compose_raises:%s' % core.ename(ex), 'RSA key (n of %d bits) cannot be composed'
                              % n.bit_length(), w)
                got = None
            if got is not None and got != blob:
                acc.violation('rsa:compose_differs:bits%%8=%d' % (n.bit_length() % 8), 'RSA key blob differs from RFC 4253 '
                              's6.6 encoding (n of %d bits)' % n.bit_length(), w)
            try:
                back = SshHostKeyRSA.parse_exact_size(blob)
                p = back.public_key.params
                if p.modulus != n or p.public_exponent != e:
                    acc.violation('rsa:parse_differs:bits%%8=%d' % (n.bit_length() % 8), 'parsed RSA parameters differ', w)
            except Exception as ex:  # noqa
                acc.violation('rsa:parse_raises:%s' % core.ename(ex), 'RFC encoding of an RSA key (n of %d bits) '
                              'rejected' % n.bit_length(), w)
        if i % 7 == 0:
            acc.counters['transitions'] = acc.counters.get('transitions', 0) + 2
            p_, q_, g_, y_ = n, (1 << 160) - 1, 2, n - 1 if n > 1 else 1
            w = {'kind': 'dss', 'p': hex(p_)}
            blob = ref.key_dss(p_, q_, g_, y_)
            try:
                o = SshHostKeyDSS(SshHostKeyAlgorithm.SSH_DSS, PublicKey.from_params(PublicKeyParamsDsa(
                    prime=p_, generator=g_, order=q_, public_key_value=y_)))
                if bytes(o.compose()) != blob:
                    acc.violation('dss:compose_differs', 'DSS key blob differs from RFC 4253 s6.6', w)
                back = SshHostKeyDSS.parse_exact_size(blob).public_key.params
                if (back.prime, back.order, back.generator, back.public_key_value) != (p_, q_, g_, y_):
                    acc.violation('dss:parse_differs', 'parsed DSS parameters differ', w)
            except Exception as ex:  # noqa
                acc.violation('dss:raises:%s' % core.ename(ex), 'DSS key with p of %d bits: %s' % (p_.bit_length(), ex), w)
        acc.state(core.h64('rsa', n))
    return acc.result()


# ---- (3) name-lists / KEXINIT ----------------------------------------------------------------------------------------------
def _kexinit_worker(args):
    li, lj, maxlen = args
    acc = core.Acc()
    from cryptoparser.ssh import subprotocol as ss
    base_lists = [['curve25519-sha256'], ['ssh-ed25519'], ['aes128-ctr'], ['aes128-ctr'], ['hmac-sha2-256'],
                  ['hmac-sha2-256'], ['none'], ['none'], [], []]
    vec_cls = [getattr(ss.SshKeyExchangeInit, '__attrs_attrs__')]
    fields = attr_fields(ss.SshKeyExchangeInit)
    alph = {}
    for idx, n in enumerate(KEXINIT_LISTS[:8]):
        en = fields[n].validator.type.get_param().item_class
        known = [m.value.code for m in list(en)[:3]]
        alph[idx] = known + ['unknown-name@verif.example', 'x', known[0] + '-etm@x.y']
    alph[8] = alph[9] = ['en-US', 'de']

    def seqs(idx):
        out = [[]]
        for n in range(1, maxlen + 1):
            out += [list(c) for c in itertools.product(alph[idx], repeat=n)]
        return out
    cookie = bytes(range(16))
    js = [None] if lj is None else [lj]
    for a in seqs(li):
        for b in (seqs(lj) if lj is not None else [None]):
            lists = [list(x) for x in base_lists]
            lists[li] = a
            if lj is not None:
                lists[lj] = b
            wire = ref.kexinit(cookie, lists, False, 0)
            acc.counters['transitions'] = acc.counters.get('transitions', 0) + 2
            w = {'kind': 'kexinit', 'lists': lists}
            try:
                o = ss.SshKeyExchangeInit.parse_exact_size(wire)
            except Exception as e:  # noqa
                acc.violation('kexinit:parse_raises:%s:list%s' % (core.ename(e), 'lang' if li >= 8 else ''),
                              'RFC 4253 s7.1 KEXINIT rejected (%s)' % core.ename(e), w)
                continue
            got = []
            for n in KEXINIT_LISTS:
                v = getattr(o, n)
                got.append([bytes(x.compose()).decode('ascii') if hasattr(x, 'compose') and not hasattr(x, 'value')
                            else (x if isinstance(x, str) else x.value.code if hasattr(x.value, 'code') else str(x))
                            for x in v])
            if got != lists or bytes(o.cookie) != cookie:
                bad = [KEXINIT_LISTS[k] for k in range(10) if got[k] != lists[k]]
                acc.violation('kexinit:fields_differ:%s' % ('languages' if bad and bad[0].startswith('lang') else 'algorithms'),
                              'parsed name-lists differ from the wire in %s' % bad, w)
            try:
                back = bytes(o.compose())
                if back != wire:
                    acc.violation('kexinit:compose_differs', 'KEXINIT re-composes to different bytes', w)
            except Exception as e:  # noqa
                acc.violation('kexinit:compose_raises:%s' % core.ename(e), 'parsed KEXINIT cannot be composed', w)
            acc.state(core.h64('kexinit', repr(lists)))
    if li == 0 and lj is None:
        acc.sample({'kind': 'kexinit', 'lists': base_lists}, 1)
    return acc.result()


def language_tags():
    """RFC 3066 (RFC 4253 s7.1 language name-lists): Language-Tag = Primary-subtag *( "-" Subtag ), Primary-subtag =
    1*8ALPHA, Subtag = 1*8(ALPHA / DIGIT) - every primary length 1..8 with none, one (every length 1..8, letters and
    digits) or two subtags."""
    out = []
    letters, mixed = 'valencia', '1606nict'
    for pl in range(1, 9):
        primary = letters[:pl]
        out.append(primary)
        for sl in range(1, 9):
            for sub in (letters[:sl], mixed[:sl], letters[:sl].upper()):
                out.append('%s-%s' % (primary, sub))
            for sl2 in (1, 4, 8):
                out.append('%s-%s-%s' % (primary, mixed[:sl], letters[:sl2]))
    return sorted(set(out))


def _language_worker(_):
    acc = core.Acc()
    from cryptoparser.ssh import subprotocol as ss
    base_lists = [['curve25519-sha256'], ['ssh-ed25519'], ['aes128-ctr'], ['aes128-ctr'], ['hmac-sha2-256'],
                  ['hmac-sha2-256'], ['none'], ['none'], [], []]
    cookie = bytes(range(16))
    tags = language_tags()
    for tag in tags:
        for where in ((8,), (9,), (8, 9)):
            lists = [list(x) for x in base_lists]
            for k in where:
                lists[k] = [tag] if len(where) == 1 else ['en', tag]
            wire = ref.kexinit(cookie, lists, False, 0)
            acc.counters['transitions'] = acc.counters.get('transitions', 0) + 2
            w = {'kind': 'kexinit_language', 'tag': tag, 'where': list(where)}
            try:
                o = ss.SshKeyExchangeInit.parse_exact_size(wire)
            except Exception as e:  # noqa
                acc.violation('kexinit:parse_raises:%s:listlang' % core.ename(e),
                              'KEXINIT with the RFC 3066 language tag %r rejected (%s)' % (tag, core.ename(e)), w)
                continue
            got = [[bytes(x.compose()).decode('ascii') for x in getattr(o, n)] for n in KEXINIT_LISTS[8:]]
            if got != lists[8:]:
                acc.violation('kexinit:fields_differ:languages', 'language tag %r parsed as %r' % (tag, got), w)
            try:
                if bytes(o.compose()) != wire:
                    acc.violation('kexinit:compose_differs', 'KEXINIT with language %r re-composes differently' % tag, w)
            except Exception as e:  # noqa
                acc.violation('kexinit:compose_raises:%s' % core.ename(e), 'parsed KEXINIT cannot be composed', w)
            acc.state(core.h64('kexinit-lang', tag, where))
    acc.sample({'kind': 'kexinit_language', 'tags': len(tags), 'first': tags[0], 'last': tags[-1]}, 1)
    return acc.result()


def attr_fields(cls):
    import attr
    return {f.name: f for f in attr.fields(cls)}


# ---- (4)(5)(6) objects: keys, certificates, banner, messages over their neighbourhoods ------------------------------------------
def bridged_classes():
    out = []
    for cls in classes.parsable_classes():
        if not cls.__module__.startswith('cryptoparser.ssh.'):
            continue
        tn = cls.__name__
        if (tn.startswith('SshHostKey') or tn.startswith('SshHostCertificate') or tn == 'SshProtocolMessage' or tn in (
                'SshKeyExchangeInit', 'SshDisconnectMessage', 'SshUnimplementedMessage', 'SshNewKeys',
                'SshDHKeyExchangeInit', 'SshDHGroupExchangeInit', 'SshDHKeyExchangeReply', 'SshDHGroupExchangeReply',
                'SshDHGroupExchangeRequest', 'SshDHGroupExchangeGroup')):
            out.append(cls)
    return out


def check_against_reference(acc, cls, o, w):
    doc = classes.documented_errors()
    acc.counters['transitions'] = acc.counters.get('transitions', 0) + 1
    try:
        got = bytes(o.compose())
    except doc:
        return
    except Exception:  # noqa (C01)
        return
    try:
        exp = reference_bytes(o)
    except (KeyError, OverflowError, ValueError, AttributeError, UnicodeError):
        acc.count('no_reference_encoding')
        return
    if exp is None:
        return
    tn = cls.__name__
    fam = 'cert' if tn.startswith('SshHostCertificate') else 'key' if tn.startswith('SshHostKey') else tn
    if got != exp:
        i = next((k for k in range(min(len(got), len(exp))) if got[k] != exp[k]), min(len(got), len(exp)))
        acc.violation('layout:%s:%s' % (fam, _where(o, exp, i)),
                      '%s composes to bytes that differ from the reference encoding at offset %d (%d vs %d bytes)'
                      % (tn, i, len(got), len(exp)), dict(w, composed=got[:300], reference=exp[:300]))
        return
    # the reference wire form must parse back to the same fields
    acc.counters['transitions'] = acc.counters.get('transitions', 0) + 1
    try:
        back = cls.parse_exact_size(exp)
        if canon.dump(back, eq=True) != canon.dump(o, eq=True):
            acc.violation('parse_of_reference:%s' % fam, 'parse of the reference encoding differs from the object', w)
    except Exception as e:  # noqa
        acc.violation('parse_of_reference_raises:%s:%s:%s' % (fam, _where(o, exp, 0), core.ename(e)),
                      'reference encoding rejected', w)


def _where(o, exp, i):
    """Coarse location label for signatures: certificates that carry an option with a value are their own family
    (the value is packed as a string inside the option's data string, PROTOCOL.certkeys)."""
    tn = type(o).__name__
    if tn.startswith('SshHostCertificate'):
        for attr_name in ('critical_options', 'extensions', 'constraints'):
            for it in getattr(o, attr_name, []) or []:
                if type(it).__name__ in ('SshCertExtensionForceCommand', 'SshCertExtensionSourceAddress'):
                    return 'option_with_value'
    return 'body'


def _object_worker(args):
    qn, idx, depth = args
    acc = core.Acc()
    objects.AWARE_FOR_NAIVE = True      # layout check: aware spellings of one instant must encode identically
    cls = classes.class_by_name(qn)
    objs = objects.seed_objects().get(cls, [])
    if idx >= len(objs):
        return acc.result()
    with core.watchdog(1200):
        for path, o, stats in objects.neighbourhood(objs[idx], depth, False, 5000):
            check_against_reference(acc, cls, o, {'kind': 'object', 'cls': qn, 'seed': idx, 'path': list(path)})
            acc.state(core.h64(qn, repr(canon.dump(o))[:3000]))
    if idx == 0:
        acc.sample({'kind': 'object', 'cls': qn, 'oracle': 'compose == ssh_ref encoding of the public fields'}, 1)
    return acc.result()


def cert_variants(seed):
    """[dict of changed fields] - certificates with every critical option and extension alone and in ordered pairs,
    unknown options, principals 0-3, validity {epoch, instant, forever}, serial boundaries."""
    import datetime
    from cryptoparser.ssh import key as sk
    crit = [sk.SshCertExtensionForceCommand('ls -l'), sk.SshCertExtensionSourceAddress(['10.0.0.0/8', '::1/128']),
            sk.SshCertExtensionUnparsed('verified-user@verif.example', b'\x00\x00\x00\x01x')]
    exts = [sk.SshCertExtensionNoPrecenseRequired(), sk.SshCertExtensionPermitX11Forwarding(),
            sk.SshCertExtensionPermitAgentForwarding(), sk.SshCertExtensionPermitPortForwarding(),
            sk.SshCertExtensionPermitPTY(), sk.SshCertExtensionPermitUserRC(),
            sk.SshCertExtensionUnparsed('ext@verif.example', b'')]
    utc = datetime.timezone.utc

    def lists(pool):
        return [[]] + [[x] for x in pool] + [[x, y] for x in pool for y in pool if x is not y]
    variants = []
    if hasattr(seed, 'serial'):
        for c in lists(crit):
            variants.append({'critical_options': c})
        for e in lists(exts):
            variants.append({'extensions': e})
        variants.append({'critical_options': [crit[2]], 'extensions': [exts[4]]})
        variants.append({'critical_options': [crit[2]], 'extensions': []})
        variants.append({'critical_options': [], 'extensions': [exts[0], exts[6]]})
        # unknown names next to every known one ("unknown names preserved"): a known name extended, shortened,
        # upper-cased and vendor-qualified, as an extension and as a critical option
        for member in sk.SshCertExtensionName:
            code = member.value.code
            for name in (code + 'X', code + '-2', code[:-1], code.upper(), code + '@verif.example'):
                for data in (b'', b'\x00\x00\x00\x01x'):
                    u = sk.SshCertExtensionUnparsed(name, data)
                    variants.append({'extensions': [u]})
                    variants.append({'critical_options': [u]})
    else:
        for c in lists(crit + exts[:2]):
            variants.append({'constraints': c})
    for n in range(4):
        variants.append({'valid_principals': [sk.SshString('p%d' % k) for k in range(n)]})
    for va, vb in ((datetime.datetime(1970, 1, 1, tzinfo=utc), None),
                   (datetime.datetime(2020, 2, 29, 12, 0, 1, tzinfo=utc), datetime.datetime(2038, 1, 19, 3, 14, 8, tzinfo=utc)),
                   (datetime.datetime(1970, 1, 1, tzinfo=utc), datetime.datetime(1970, 1, 1, tzinfo=utc))):
        variants.append({'valid_after': va, 'valid_before': vb})
    for sn in (0, 1, 2 ** 32, 2 ** 64 - 1):
        if hasattr(seed, 'serial'):
            variants.append({'serial': sn})
    return variants


def _warm_compose(c):
    try:
        c.compose()
    except Exception:  # noqa
        pass


def check_inplace_histories(acc, cls, o, w):
    """The certificate reached by editing a principal / option / extension in place must compose to the bytes of
    the equal certificate built by construction (whose layout check_against_reference judges)."""
    nc = objects._not_constructible()
    try:
        variants = objects.inplace_variants(o, False)
    except nc:
        return
    for tag, rebuilt, inplace in variants:
        acc.counters['transitions'] = acc.counters.get('transitions', 0) + 1
        try:
            a = rebuilt()
            exp = bytes(a.compose())
            b = inplace(_warm_compose)
        except Exception:  # noqa - not constructible / not composable / frozen
            continue
        holder = tag.split('.')[0].split('[')[0]
        try:
            got = bytes(b.compose())
        except Exception as e:  # noqa
            acc.violation('inplace:cert:%s:compose_raises:%s' % (holder, core.ename(e)),
                          'certificate edited in place (%s) cannot be composed' % tag, dict(w, tag=tag))
            continue
        acc.state(core.h64('cert-inplace', w['cls'], w['variant'], tag))
        if got != exp:
            i = next((k for k in range(min(len(got), len(exp))) if got[k] != exp[k]), min(len(got), len(exp)))
            acc.violation('inplace:cert:%s:layout' % holder, '%s edited in place (%s) composes to bytes that differ at '
                          'offset %d from the encoding of the equal certificate built by construction (%d vs %d bytes)'
                          % (cls.__name__, tag, i, len(got), len(exp)), dict(w, tag=tag, composed=got[:300],
                                                                            reference=exp[:300]))


def ecdsa_wire_forms():
    """[(algorithm name, curve identifier, blob)]: RFC 5656 s3.1 blobs string(name) string(identifier) string(Q) for
    every ECDSA host-key algorithm name x every curve identifier the library knows (identifiers that are OIDs are
    not part of the algorithm name, and name and identifier may disagree on the wire) x 2 point patterns."""
    from cryptodatahub.common.algorithm import Authentication
    from cryptodatahub.ssh.algorithm import SshEllipticCurveIdentifier, SshHostKeyAlgorithm, SshHostKeyType
    algs = [a for a in SshHostKeyAlgorithm if a.value.key_type == SshHostKeyType.HOST_KEY
            and a.value.signature is not None and a.value.signature.value.key_type == Authentication.ECDSA]
    out = []
    for a in algs:
        for c in SshEllipticCurveIdentifier:
            size = (c.value.named_group.value.size + 7) // 8
            for pat in ((0x11, 0x22), (0x80, 0x01)):
                q = b'\x04' + bytes((pat[0],)) * size + bytes((pat[1],)) * size
                out.append((a.value.code, c.value.code, ref.string(a.value.code.encode('ascii'))
                            + ref.string(c.value.code.encode('ascii')) + ref.string(q)))
    return out


def _ecdsa_worker(_):
    """Every RFC 5656 blob (algorithm name x curve identifier x point pattern) parses and is composed back bit-exactly,
    with the curve and point that are on the wire."""
    acc = core.Acc()
    from cryptoparser.ssh.key import SshHostKeyECDSA
    doc = classes.documented_errors()
    for i, (name, ident, blob) in enumerate(ecdsa_wire_forms()):
        acc.counters['transitions'] = acc.counters.get('transitions', 0) + 1
        w = {'kind': 'ecdsa', 'algorithm': name, 'curve': ident, 'index': i}
        try:
            o = SshHostKeyECDSA.parse_exact_size(blob)
        except doc as e:
            acc.violation('ecdsa:rejected:%s' % core.ename(e), 'RFC 5656 blob %s / %s rejected' % (name, ident), w)
            continue
        acc.state(core.h64('ecdsa', i))
        if o.host_key_algorithm.value.code != name:
            acc.violation('ecdsa:fields:algorithm', 'parsed algorithm %s, wire has %s' % (o.host_key_algorithm.value.code,
                                                                                          name), w)
        try:
            got = bytes(o.compose())
        except Exception as e:  # noqa
            acc.violation('ecdsa:compose_raises:%s' % core.ename(e), 'parsed ECDSA key %s / %s cannot be composed'
                          % (name, ident), w)
            continue
        if got != blob:
            k = next((k for k in range(min(len(got), len(blob))) if got[k] != blob[k]), min(len(got), len(blob)))
            acc.violation('ecdsa:layout:%s' % ('named' if ident in name else 'oid_or_mismatch'),
                          'ECDSA key %s / %s is composed differently from the RFC 5656 blob (offset %d)'
                          % (name, ident, k), dict(w, composed=got[:200], reference=blob[:200]))
    acc.sample({'kind': 'ecdsa', 'forms': len(ecdsa_wire_forms())}, 1)
    return acc.result()


def _cert_option_worker(args):
    qn, part, parts = (tuple(args) + (0, 1))[:3]
    acc = core.Acc()
    import attr
    cls = classes.class_by_name(qn)
    seeds = objects.seed_objects().get(cls, [])
    if not seeds:
        return acc.result()
    seed = seeds[0]
    variants = cert_variants(seed)
    for i, ch in enumerate(variants):
        if i % parts != part:
            continue
        try:
            o = attr.evolve(seed, **ch)
        except Exception:  # noqa
            acc.count('not_constructible')
            continue
        check_against_reference(acc, cls, o, {'kind': 'cert', 'cls': qn, 'variant': i,
                                             'changed': {k: repr(v)[:120] for k, v in ch.items()}})
        acc.state(core.h64('cert', qn, i))
        check_inplace_histories(acc, cls, o, {'kind': 'cert_inplace', 'cls': qn, 'variant': i})
    if part == 0:
        acc.sample({'kind': 'cert', 'cls': qn, 'variants': len(variants)}, 1)
    return acc.result()


def _banner_worker(_):
    acc = core.Acc()
    from cryptoparser.ssh.subprotocol import SshProtocolMessage
    softwares = ['OpenSSH_8.9', 'OpenSSH_for_Windows_8.1', 'dropbear_2019.78', 'dropbear', 'libssh_0.9.6', 'libssh-0.6.3',
                 'x', 'Cisco-1.25', 'ROSSSH', 'mod_sftp', 'a_b.c', 'IPSSH-6.9.0', 'cryptlib', 'MonacaSSH']
    # the software version is an opaque string of printable US-ASCII (RFC 4253 s4.2): a vendor name in another letter
    # case is another string and comes back as it was sent
    for sw in list(softwares):
        for f in (str.lower, str.upper, str.swapcase, str.title):
            if f(sw) not in softwares:
                softwares.append(f(sw))
    for proto in ('1.5', '1.99', '2.0'):
        for sw in softwares:
            for comment in (None, 'c', 'Ubuntu-3ubuntu0.1', 'two words', 'a  b'):
                for crlf in (True, False):
                    wire = ref.banner(proto, sw, comment, crlf)
                    acc.counters['transitions'] = acc.counters.get('transitions', 0) + 2
                    w = {'kind': 'banner', 'wire': wire}
                    try:
                        o = SshProtocolMessage.parse_exact_size(wire)
                    except Exception as e:  # noqa
                        acc.violation('banner:parse_raises:%s' % core.ename(e), 'RFC 4253 s4.2 banner rejected: %r' % wire, w)
                        continue
                    got = {'proto': '%d.%d' % (int(o.protocol_version.major), o.protocol_version.minor),
                           'software': bytes(o.software_version.compose()).decode('ascii'), 'comment': o.comment}
                    exp = ref.decode_banner(wire)
                    if got != exp:
                        k = [f for f in exp if got[f] != exp[f]][0]
                        acc.violation('banner:field_differs:%s' % k, 'banner %r parsed as %r' % (wire, got), w)
                    back = bytes(o.compose())
                    if back != ref.banner(proto, sw, comment, True):
                        acc.violation('banner:compose_differs', 'banner %r re-composes as %r' % (wire, back), w)
                    acc.state(core.h64('banner', wire))
    # RFC 4253 s4.2: "The maximum length of the string is 255 characters, including the Carriage Return and Line
    # Feed."  Every total length around the limit, padded in the software version or in the comment, CR LF and bare LF
    # (tolerated input); and the same objects built directly.  Whatever compose() emits must be within the limit.
    from cryptoparser.ssh.version import SshProtocolVersion, SshVersion, SshSoftwareVersionUnparsed
    for total in range(249, 260):
        for crlf in (True, False):
            for where in ('software', 'comment'):
                fixed = len('SSH-2.0-') + (2 if crlf else 1)
                if where == 'software':
                    sw, comment = 'a' * (total - fixed), None
                else:
                    sw, comment = 'OpenSSH_8.9', 'c' * (total - fixed - len('OpenSSH_8.9 '))
                wire = ref.banner('2.0', sw, comment, crlf)
                assert len(wire) == total
                acc.counters['transitions'] = acc.counters.get('transitions', 0) + 2
                w = {'kind': 'banner', 'wire': wire}
                canonical = ref.banner('2.0', sw, comment, True)
                try:
                    o = SshProtocolMessage.parse_exact_size(wire)
                except Exception as e:  # noqa
                    if crlf and total <= 255:
                        acc.violation('banner:parse_raises:%s' % core.ename(e),
                                      'RFC 4253 s4.2 banner of %d octets rejected' % total, w)
                    o = None
                if o is not None:
                    try:
                        back = bytes(o.compose())
                    except Exception as e:  # noqa
                        back = None
                        if len(canonical) <= 255:
                            acc.violation('banner:compose_raises:%s' % core.ename(e),
                                          'parsed %d-octet banner does not compose' % total, w)
                    if back is not None and len(back) > 255:
                        acc.violation('banner:composed_longer_than_255',
                                      'a %d-octet banner (%s) is accepted and composed as %d octets; RFC 4253 s4.2 '
                                      'limits the identification string to 255 including CR LF'
                                      % (total, 'CR LF' if crlf else 'bare LF', len(back)), w)
                    elif back is not None and back != canonical:
                        acc.violation('banner:compose_differs', 'banner %r re-composes as %r' % (wire, back), w)
                try:
                    built = SshProtocolMessage(SshProtocolVersion(SshVersion.SSH2), SshSoftwareVersionUnparsed(sw), comment)
                    back = bytes(built.compose())
                except Exception as e:  # noqa
                    back = None
                    if len(canonical) <= 255:
                        acc.violation('banner:built_raises:%s' % core.ename(e),
                                      'a banner of %d octets cannot be built and composed' % len(canonical), w)
                if back is not None and len(back) > 255:
                    acc.violation('banner:built_composed_longer_than_255',
                                  'SshProtocolMessage with a %d-character %s composes a %d-octet identification string '
                                  '(limit 255, RFC 4253 s4.2)' % (len(sw if where == 'software' else comment), where,
                                                                  len(back)), w)
                elif back is not None and back != canonical:
                    acc.violation('banner:built_compose_differs', 'built banner composes as %r' % back[:60], w)
                acc.state(core.h64('banner-len', total, crlf, where))
    acc.sample({'kind': 'banner', 'wire': ref.banner('2.0', 'OpenSSH_8.9', 'c')}, 1)
    return acc.result()


def run(ctx):
    top = 35001
    items = []
    if ctx.quick:
        ranges = [(1, 4097)] + [(k - 9, k + 10) for k in range(4104, top, 1024)] + [(34980, 35001)]
    else:
        ranges = [(1, top)]
    for variant in ('init', 'kexdh', 'kexdhgroup'):
        for lo, hi in ranges:
            step = 512
            for a in range(lo, hi, step):
                items.append((variant, a, min(hi, a + step)))
    ctx.pmap(_padding_worker, items)
    nmax = 1100 if ctx.quick else 4097
    ctx.pmap(_keyparam_worker, [(p, 32, nmax) for p in range(32)])
    kitems = [(i, None, 3 if not ctx.quick or i < 8 else 2) for i in range(10)]
    for i, j in itertools.combinations(range(10), 2):
        kitems.append((i, j, 1 if ctx.quick else 2))
    ctx.pmap(_kexinit_worker, kitems)
    so = objects.seed_objects()
    oitems = []
    for cls in bridged_classes():
        for i in range(len(so.get(cls, []))):
            oitems.append((classes.qualname(cls), i, 1 if ctx.quick else 2))
    ctx.pmap(_object_worker, oitems)
    ctx.pmap(_cert_option_worker, [(classes.qualname(c), part, 6) for c in bridged_classes()
                                   if c.__name__.startswith('SshHostCertificate') for part in range(6)])
    ctx.pmap(_ecdsa_worker, [0], nproc=1)
    ctx.pmap(_banner_worker, [0], nproc=1)
    ctx.pmap(_language_worker, [0], nproc=1)
    ctx.assumptions += [
        'reference encoders written from RFC 4251/4253/4419/5656/8709 and OpenSSH PROTOCOL.certkeys; anchored on the '
        'suite vectors by the self-test',
        'minimal padding is not demanded (RFC 4253 s6 allows any padding 4..255 that aligns the packet)',
        'public-key blob of a certificate = the certificate wire string',
    ]
    return ctx.finish(rule='packets for every payload length 1..35000 (quick: 1..4096 + windows around every 1024) x 3 '
                           'record classes; RSA/DSS keys over boundary bit lengths 8k-1/8k/8k+1 (+-1) up to %d bits; '
                           'KEXINIT with every name-list of length <= 3 over a 6-name alphabet in each of the 10 '
                           'positions and every pair of positions; keys, certificates, banner and messages within %d '
                           'deviations of the seeds; 420 banners' % (nmax, 1 if ctx.quick else 2))


def replay(ctx, w):
    acc = core.Acc()
    k = w['kind']
    if k == 'padding':
        res = _padding_worker((w['variant'], w['payload_length'], w['payload_length'] + 1))
    elif k in ('rsa', 'dss'):
        res = _keyparam_worker((0, 1, 1100))
        if k == 'rsa':
            res = (res[0], [v for v in res[1] if v['witness'].get('n') == w.get('n')] or res[1], res[2], res[3])
    elif k == 'kexinit':
        from cryptoparser.ssh import subprotocol as ss
        wire = ref.kexinit(bytes(range(16)), w['lists'], False, 0)
        try:
            o = ss.SshKeyExchangeInit.parse_exact_size(wire)
            if bytes(o.compose()) != wire:
                acc.violation('kexinit:compose_differs', 'differs', w)
        except Exception as e:  # noqa
            acc.violation('kexinit:parse_raises:%s:list' % core.ename(e), 'rejected', w)
        res = acc.result()
    elif k == 'kexinit_language':
        res = _language_worker(0)
    elif k == 'banner':
        res = _banner_worker(0)
        res = (res[0], [v for v in res[1] if v['witness'].get('wire') == w.get('wire')] or res[1], res[2], res[3])
    elif k == 'ecdsa':
        res = _ecdsa_worker(0)
        res = (res[0], [v for v in res[1] if v['witness'].get('index') == w.get('index')], res[2], res[3])
    elif k == 'cert':
        res = _cert_option_worker((w['cls'],))
        res = (res[0], [v for v in res[1] if v['witness'].get('variant') == w.get('variant')
                        and v['witness'].get('kind') == 'cert'] or res[1], res[2], res[3])
    elif k == 'cert_inplace':
        res = _cert_option_worker((w['cls'],))
        res = (res[0], [v for v in res[1] if v['witness'].get('variant') == w.get('variant')
                        and v['witness'].get('tag') == w.get('tag')], res[2], res[3])
    else:
        cls = classes.class_by_name(w['cls'])
        seed = objects.seed_objects()[cls][w['seed']]
        for path, o, stats in objects.neighbourhood(seed, len(w['path']), False, None):
            if list(path) == w['path']:
                check_against_reference(acc, cls, o, w)
                break
        res = acc.result()
    return res[1][0] if res[1] else None
