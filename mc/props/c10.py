"""C10 - every wire code point is decoded faithfully or preserved verbatim.

Complete enumeration of all 1- and 2-byte code spaces of every code-point factory (alone, as only element and
as first of two elements of its list container), the 3-byte SSL 2.0 cipher-kind space, boundary sets of 4-byte
spaces, IntEnum-typed wire fields substituted in place, string-coded enumerations, and the static no-alias clause.
"""
import enum
import inspect
import itertools

from mc import classes, core

GREASE2 = frozenset(0x0a0a + 0x1010 * i for i in range(16))           # RFC 8701 section 2
GREASE1 = frozenset((0x0b, 0x2a, 0x49, 0x68, 0x87, 0xa6, 0xc5, 0xe4))  # RFC 8701 PskKeyExchangeModes

ALLOWED_SHARED = {('SshMessageCode', 31): {'DH_KEX_REPLY', 'DH_GEX_GROUP'}}   # RFC 4253 / RFC 4419


def factories():
    from cryptoparser.common.base import NByteEnumParsable
    return [c for c in classes.parse_entry_classes() if issubclass(c, NByteEnumParsable)]


def code_table(enum_cls):
    tab = {}
    for m in enum_cls:
        tab.setdefault(m.value.code, []).append(m)
    return tab


def space(width, thorough):
    if width <= 2:
        return range(256 ** width)
    if width == 3:
        if thorough:
            return range(256 ** 3)
        vals = set()
        for i, j in itertools.combinations(range(3), 2):
            for a in range(256):
                for b in range(256):
                    vals.add((a << (8 * i)) | (b << (8 * j)))
        return sorted(vals)
    vals = set()
    for i, j in itertools.combinations(range(width), 2):
        for a in (0, 1, 2, 0x7f, 0x80, 0xfe, 0xff):
            for b in range(256):
                vals.add((a << (8 * i)) | (b << (8 * j)))
    return sorted(vals)


# ---- static clause -----------------------------------------------------------------------------------------
def static_aliases(acc):
    seen = set()
    enums = []
    for m in classes.all_modules():
        for n, o in vars(m).items():
            if inspect.isclass(o) and issubclass(o, enum.Enum) and o.__module__.startswith('cryptoparser.') \
                    and len(o) and o not in seen:
                seen.add(o)
                enums.append(o)
    for f in factories():
        e = f.get_enum_class()
        if e not in seen:
            seen.add(e)
            enums.append(e)
    from cryptodatahub.ssh import algorithm as ssh_alg
    for name in ('SshKexAlgorithm', 'SshHostKeyAlgorithm', 'SshEncryptionAlgorithm', 'SshMacAlgorithm',
                 'SshCompressionAlgorithm'):
        e = getattr(ssh_alg, name)
        if e not in seen:
            seen.add(e)
            enums.append(e)
    for e in enums:
        acc.count('transitions')
        acc.count('enums_checked')
        groups = {}
        for name, member in e.__members__.items():
            v = member.value
            code = getattr(v, 'code', v)
            try:
                hash(code)
            except TypeError:
                continue
            groups.setdefault(code, set()).add(name)
        for code, names in groups.items():
            if len(names) > 1 and ALLOWED_SHARED.get((e.__name__, code)) != names:
                acc.violation('alias:%s:%s' % (e.__name__, '/'.join(sorted(names))),
                              'distinct names %s of %s share the code %r' % (sorted(names), e.__name__, code),
                              {'kind': 'alias', 'enum': '%s.%s' % (e.__module__, e.__name__), 'code': repr(code)})
        acc.state(core.h64('enum', e.__module__, e.__name__))


# ---- factory alone -----------------------------------------------------------------------------------------
def _factory_worker(args):
    fi, lo, hi, thorough = args
    acc = core.Acc()
    from cryptodatahub.common.exception import InvalidValue
    f = factories()[fi]
    width = f.get_byte_num()
    tab = code_table(f.get_enum_class())
    qn = classes.qualname(f)
    sp = space(width, thorough)
    outcomes = set()
    for code in sp[lo:hi]:
        b = code.to_bytes(width, 'big')
        acc.counters['transitions'] = acc.counters.get('transitions', 0) + 1
        try:
            member, n = f.parse_immutable(b)
        except InvalidValue:
            outcomes.add('invalid')
            if code in tab:
                acc.violation('factory:%s:known_rejected' % f.__name__, 'defined code %#x is rejected' % code,
                              {'kind': 'factory', 'factory': qn, 'code': code})
            continue
        except Exception as e:  # noqa
            acc.violation('factory:%s:raises:%s' % (f.__name__, core.ename(e)), 'code %#x raises %s'
                          % (code, core.ename(e)), {'kind': 'factory', 'factory': qn, 'code': code})
            continue
        outcomes.add('member')
        exp = tab.get(code)
        if exp is None:
            acc.violation('factory:%s:unknown_mapped' % f.__name__, 'undefined code %#x decodes to %s (code %#x)'
                          % (code, member.name, member.value.code), {'kind': 'factory', 'factory': qn, 'code': code})
        elif member is not exp[0] or len(exp) != 1 or n != width:
            acc.violation('factory:%s:wrong_member' % f.__name__, 'code %#x decodes to %s, table says %s (n=%d)'
                          % (code, member.name, [m.name for m in exp], n),
                          {'kind': 'factory', 'factory': qn, 'code': code})
    acc.state(core.h64('factory', qn, lo))
    for o in outcomes:
        acc.state(core.h64('factory-outcome', qn, o))
    if lo == 0:
        acc.sample({'factory': qn, 'width': width, 'space': len(sp), 'defined': len(tab)}, 1)
    return acc.result()


# ---- list containers ---------------------------------------------------------------------------------------
def code_vectors():
    from cryptoparser.common.base import ArrayBase, NByteEnumParsable
    out = []
    for c in classes.parsable_classes():
        if issubclass(c, ArrayBase):
            p = c.get_param()
            ic = getattr(p, 'item_class', None)
            if isinstance(ic, type) and issubclass(ic, NByteEnumParsable):
                out.append(c)
    return out


class _VecInfo(object):
    def __init__(self, v):
        self.v = v
        self.p = v.get_param()
        self.f = self.p.item_class
        self.width = self.f.get_byte_num()
        self.tab = code_table(self.f.get_enum_class())
        self.known = sorted(self.tab)[0].to_bytes(self.width, 'big')
        self.grease = GREASE1 if self.width == 1 else GREASE2
        self.qn = classes.qualname(v)


def _check_vector_code(acc, vi, doc, code, prefix, extra):
    """One code of one list container, as only / first / second element: the C10 oracle (absolute, so it can be
    evaluated after any history)."""
    from cryptodatahub.common.exception import InvalidValue
    from cryptoparser.tls.grease import TlsInvalidType
    v, p, width, tab, known = vi.v, vi.p, vi.width, vi.tab, vi.known
    cb = code.to_bytes(width, 'big')
    for ctx_name, body in (('only', cb), ('first_of_two', cb + known), ('second_of_two', known + cb)):
        if len(body) < p.min_byte_num or len(body) > p.max_byte_num:
            continue
        wire = len(body).to_bytes(p.item_num_size, 'big') + body
        acc.counters['transitions'] = acc.counters.get('transitions', 0) + 1
        w = dict({'kind': 'vector', 'vector': vi.qn, 'code': code, 'context': ctx_name}, **extra)
        try:
            obj = v.parse_exact_size(wire)
        except InvalidValue:
            if code in tab:
                acc.violation('%s:%s:known_rejected' % (prefix, v.__name__), 'defined code %#x rejected inside its '
                              'list' % code, w)
            continue
        except doc as e:
            acc.violation('%s:%s:rejected:%s' % (prefix, v.__name__, core.ename(e)),
                          'well-formed list with code %#x rejected with %s' % (code, core.ename(e)), w)
            continue
        except Exception as e:  # noqa
            acc.violation('%s:%s:raises:%s' % (prefix, v.__name__, core.ename(e)), 'list with code %#x raises %s'
                          % (code, core.ename(e)), w)
            continue
        items = list(obj)
        nexp = len(body) // width
        if len(items) != nexp:
            acc.violation('%s:%s:item_dropped' % (prefix, v.__name__), 'list of %d codes parsed to %d items'
                          % (nexp, len(items)), w)
            continue
        it = items[1] if ctx_name == 'second_of_two' else items[0]
        if code in tab:
            if it is not tab[code][0]:
                acc.violation('%s:%s:wrong_member' % (prefix, v.__name__), 'code %#x decoded to %r' % (code, it), w)
        else:
            icode = getattr(it, 'code', None)
            if isinstance(it, enum.Enum) or icode != code:
                acc.violation('%s:%s:unknown_mapped' % (prefix, v.__name__), 'undefined code %#x became %r'
                              % (code, it), w)
            else:
                is_grease = it.value.value_type == TlsInvalidType.GREASE
                if is_grease != (code in vi.grease):
                    acc.violation('%s:%s:grease_class' % (prefix, v.__name__), 'code %#x classified %s, RFC 8701 says '
                                  '%s' % (code, it.value.value_type.name,
                                          'GREASE' if code in vi.grease else 'not GREASE'), w)
        try:
            back = bytes(obj.compose())
        except Exception as e:  # noqa
            acc.violation('%s:%s:compose_raises:%s' % (prefix, v.__name__, core.ename(e)),
                          'parsed list with code %#x cannot be composed: %s' % (code, core.ename(e)), w)
            continue
        if back != wire:
            acc.violation('%s:%s:not_bit_exact' % (prefix, v.__name__), 'list with code %#x re-composes to different '
                          'bytes (%s -> %s)' % (code, wire.hex(), back.hex()), w)


def _vector_worker(args):
    vi, lo, hi = args
    acc = core.Acc()
    info = _VecInfo(code_vectors()[vi])
    doc = classes.documented_errors()
    for code in range(lo, hi):
        _check_vector_code(acc, info, doc, code, 'vector', {})
    acc.state(core.h64('vector', info.qn, lo))
    if lo == 0:
        acc.sample({'vector': info.qn, 'wire': (2 * info.width).to_bytes(info.p.item_num_size, 'big')
                    + info.known + info.known}, 1)
    return acc.result()


# ---- two-step histories across code spaces -----------------------------------------------------------------
def history_codes(a, b, thorough):
    """Codes tried in the history (parse in A, then parse in B): every value that fits the narrower of the two
    spaces' first octet range 0..255, every code defined in either table, every GREASE value; the whole 2^16
    space for two-byte pairs in the thorough tier."""
    lim = 256 ** min(a.width, b.width)
    if thorough:
        return range(lim)
    vals = set(range(256)) | {c for c in a.tab if c < lim} | {c for c in b.tab if c < lim}
    vals |= {c for c in (a.grease | b.grease) if c < lim}
    return sorted(vals)


def _history_worker(args):
    """Runs in a freshly forked process (pmap(..., fresh=True)): no earlier parse of any code space has happened in
    it beyond what the parent did before forking.  Step 1 parses code c (alone in its list) in space A, step 2
    evaluates the complete C10 oracle for the numerically equal code in space B."""
    ai, bi, thorough = args
    acc = core.Acc()
    vecs = code_vectors()
    a, b = _VecInfo(vecs[ai]), _VecInfo(vecs[bi])
    doc = classes.documented_errors()
    for code in history_codes(a, b, thorough):
        body = code.to_bytes(a.width, 'big')
        if a.p.min_byte_num <= len(body) <= a.p.max_byte_num:
            wire = len(body).to_bytes(a.p.item_num_size, 'big') + body
            try:
                obj = a.v.parse_exact_size(wire)
                obj.compose()
            except Exception:  # noqa  (judged by the single-space exploration)
                pass
        _check_vector_code(acc, b, doc, code, 'history', {'kind': 'history', 'after': a.qn})
        acc.state(core.h64('history', a.qn, b.qn, code))
    if ai == 0 and bi == 1:
        acc.sample({'history': [a.qn, b.qn], 'codes': len(history_codes(a, b, thorough))}, 1)
    return acc.result()


# ---- the cipher-suite list inside its message: repeated composition --------------------------------------------------
def _hello_worker(args):
    """A client hello carrying code c (alone / first / second of two): every compose() of the parsed message yields
    the same bytes as the first one, and the decoded suite list is not changed by composing."""
    part, parts, thorough = args[:3]
    only = args[3] if len(args) > 3 else None
    acc = core.Acc()
    from cryptoparser.tls.subprotocol import TlsHandshakeClientHello
    from cryptoparser.tls.ciphersuite import TlsCipherSuiteFactory
    from mc.ref import tls_ref
    tab = code_table(TlsCipherSuiteFactory.get_enum_class())
    codes = range(65536) if thorough else sorted(set(range(256)) | set(tab) | GREASE2 | {0x00ff, 0x5600, 0xeeee})
    known = sorted(tab)[1]
    if only is not None:
        codes = [only]
    for i, code in enumerate(codes):
        if i % parts != part:
            continue
        for ctx_name, suites in (('only', [code]), ('first_of_two', [code, known]), ('second_of_two', [known, code])):
            wire = tls_ref.client_hello(0x0303, 0, bytes(28), b'', suites, [0], None)
            acc.counters['transitions'] = acc.counters.get('transitions', 0) + 1
            w = {'kind': 'hello', 'code': code, 'context': ctx_name}
            try:
                o = TlsHandshakeClientHello.parse_exact_size(wire)
            except Exception:  # noqa - acceptance of the message is C06's subject
                continue
            before = [getattr(x, 'name', None) or getattr(getattr(x, 'value', None), 'code', x) for x in list(o.cipher_suites)]
            try:
                outs = [bytes(o.compose()) for _ in range(3)]
            except Exception as e:  # noqa
                acc.violation('hello:compose_raises:%s' % core.ename(e), 'client hello with suite %#06x cannot be '
                              'composed repeatedly' % code, w)
                continue
            after = [getattr(x, 'name', None) or getattr(getattr(x, 'value', None), 'code', x) for x in list(o.cipher_suites)]
            if outs[1] != outs[0] or outs[2] != outs[0]:
                acc.violation('hello:recompose_differs', 'client hello with suite %#06x composes to different bytes the '
                              'second / third time (%d, %d, %d bytes)' % (code, len(outs[0]), len(outs[1]), len(outs[2])),
                              w)
            elif after != before:
                acc.violation('hello:list_changed_by_compose', 'composing a client hello with suite %#06x changed its '
                              'decoded suite list from %d to %d entries' % (code, len(before), len(after)), w)
        acc.state(core.h64('hello', code))
    return acc.result()


# ---- IntEnum-typed wire fields substituted in place --------------------------------------------------------
def field_table():
    """(label, class, seed bytes, offset, width, byteorder, enum, free)
    free=True: every defined member must be accepted at this position (the rest of the seed does not depend on it)"""
    from cryptoparser.tls import subprotocol as sp, record, extension as ext
    from cryptoparser.ssh import subprotocol as ssp, record as srec
    from cryptoparser.tls import rdp, openvpn, mysql
    from mc import layers
    L = {name: recs for name, cls, recs, extra in layers.layers()}
    tls_rec = L['tls_record'][1]
    alert = bytes(sp.TlsAlertMessage(sp.TlsAlertLevel.FATAL, sp.TlsAlertDescription.HANDSHAKE_FAILURE).compose())
    ccs = bytes(sp.TlsChangeCipherSpecMessage().compose())
    ssl_err = L['ssl2_record'][0]
    hs = dict(layers.handshake_messages())
    disc = bytes(ssp.SshDisconnectMessage(ssp.SshReasonCode.BY_APPLICATION, 'bye', 'en').compose())
    rec_disc = L['ssh_init'][1]
    tab = [
        ('tls_record.content_type', record.TlsRecord, tls_rec, 0, 1, 'big', sp.TlsContentType, True),
        ('alert.level', sp.TlsAlertMessage, alert, 0, 1, 'big', sp.TlsAlertLevel, True),
        ('alert.description', sp.TlsAlertMessage, alert, 1, 1, 'big', sp.TlsAlertDescription, True),
        ('ccs.type', sp.TlsChangeCipherSpecMessage, ccs, 0, 1, 'big', sp.TlsChangeCipherSpecType, True),
        ('ssl_record.message_type', record.SslRecord, ssl_err, 2, 1, 'big', sp.SslMessageType, False),
        ('ssl_error.error_type', sp.SslErrorMessage, ssl_err[3:], 0, 2, 'big', sp.SslErrorType, True),
        ('handshake.type(variant)', sp.TlsHandshakeMessageVariant, hs['server_hello_done'], 0, 1, 'big',
         sp.TlsHandshakeType, False),
        ('handshake.type(client_hello)', sp.TlsHandshakeMessageVariant, hs['client_hello'], 0, 1, 'big',
         sp.TlsHandshakeType, False),
        ('ssh_disconnect.reason', ssp.SshDisconnectMessage, disc, 1, 4, 'big', ssp.SshReasonCode, True),
        ('ssh_message.code(init)', ssp.SshMessageVariantInit, disc, 0, 1, 'big', ssp.SshMessageCode, False),
        ('ssh_record.message_code', srec.SshRecordInit, rec_disc, 5, 1, 'big', ssp.SshMessageCode, False),
    ]
    for qn, off, width, order, en, free in (
            ('cryptoparser.tls.subprotocol.TlsHandshakeCertificateStatus', 4, 1, 'big', ext.TlsCertificateStatusType,
             True),
            ('cryptoparser.tls.rdp.COTPConnectionRequest', 1, 1, 'big', None, False),
            ('cryptoparser.tls.rdp.RDPNegotiationRequest', 0, 1, 'big', rdp.RDPPacketType, False),
            ('cryptoparser.tls.openvpn.OpenVpnPacketVariant', 0, 1, 'big', None, False),
            ('cryptoparser.tls.mysql.MySQLHandshakeV10', 0, 1, 'big', mysql.MySQLVersion, True),
            ('cryptoparser.tls.extension.TlsExtensionServerNameClient', 6, 1, 'big', ext.TlsServerNameType, True),
            ('cryptoparser.dnsrec.record.DnsRecordDnskey', 2, 1, 'big', None, False),
            ('cryptoparser.dnsrec.record.DnsRecordDs', 2, 1, 'big', None, False),
            ('cryptoparser.dnsrec.record.DnsRecordDs', 3, 1, 'big', None, False),
            ('cryptoparser.dnsrec.record.DnsRecordRrsig', 0, 2, 'big', None, False),
            ('cryptoparser.dnsrec.record.DnsRecordRrsig', 2, 1, 'big', None, False),
            ('cryptoparser.common.x509.SignedCertificateTimestamp', 2, 1, 'big', None, False),
            ('cryptoparser.tls.record.TlsRecord', 1, 2, 'big', None, False),
            ('cryptoparser.tls.extension.TlsExtensionUnparsed', 0, 2, 'big', None, False),
            ('cryptoparser.tls.extension.TlsExtensionsClient', 2, 2, 'big', None, False),
            ('cryptoparser.tls.subprotocol.TlsHandshakeServerHello', 4, 2, 'big', None, False)):
        cls = classes.class_by_name(qn)
        seeds = [b for q, b, o in classes.corpus() if q == qn and o == 'ok' and len(b) > off + width]
        if seeds:
            seeds.sort(key=len)
            tab.append(('%s@%d' % (cls.__name__, off), cls, seeds[0], off, width, order, en, free))
    return tab


def _field_worker(args):
    ti, thorough = args
    acc = core.Acc()
    label, cls, seed, off, width, order, en, free = field_table()[ti]
    doc = classes.documented_errors()
    values = {int(m.value) for m in en} if en is not None else None
    try:
        base_obj, base_n = cls.parse_immutable(seed)
    except Exception:  # noqa
        acc.sample({'field': label, 'skipped': 'seed no longer parses'}, 1)
        return acc.result()
    for code in space(width, thorough):
        b = seed[:off] + code.to_bytes(width, order) + seed[off + width:]
        acc.counters['transitions'] = acc.counters.get('transitions', 0) + 1
        w = {'kind': 'field', 'field': label, 'code': code}
        try:
            obj, n = cls.parse_immutable(b)
        except doc:
            if free and values is not None and code in values:
                acc.violation('field:%s:known_rejected' % label, 'defined value %#x is rejected at %s' % (code, label),
                              w)
            continue
        except Exception:  # noqa  (C02)
            continue
        if values is not None and code not in values:
            acc.violation('field:%s:undefined_accepted' % label, 'undefined value %#x is accepted at %s'
                          % (code, label), w)
        try:
            back = bytes(obj.compose())
        except Exception:  # noqa (C05)
            continue
        got = back[off:off + width]
        mask = {'COTPConnectionRequest@1': 0xf0, 'OpenVpnPacketVariant@0': 0xf8}.get(label)
        if mask is not None:
            # the code point shares its octet with another bit-field (X.224 CDT, OpenVPN key_id): compare the code bits
            if n == len(b) and (got[0] & mask) != (b[off] & mask):
                acc.violation('field:%s:remapped' % label, 'value %#x at %s re-composes as %s'
                              % (code, label, got.hex()), w)
            continue
        if n == len(b) and got != b[off:off + width]:
            acc.violation('field:%s:remapped' % label, 'value %#x at %s re-composes as %s'
                          % (code, label, got.hex()), w)
    acc.state(core.h64('field', label))
    acc.sample({'field': label, 'class': cls.__name__, 'seed': seed[:24], 'offset': off, 'width': width}, 1)
    return acc.result()


def _magic_worker(ti):
    """The code-point octets of field_table() under every input that carries a constant the library itself compares
    input against (bytefam.magic_constants: the RFC 8446 HelloRetryRequest random, the downgrade sentinels) at every
    offset of the seed and of the other messages of its layer: whatever else the message says, a value that is
    accepted at the position re-composes as itself."""
    from mc import bytefam, layers
    acc = core.Acc()
    label, cls, seed, off, width, order, en, free = field_table()[ti]
    doc = classes.documented_errors()
    seeds = [seed]
    if label.startswith('handshake.type') and label.endswith('(variant)'):
        seeds += [b for _, b in layers.handshake_messages() if b != seed]
    mask = {'COTPConnectionRequest@1': 0xf0, 'OpenVpnPacketVariant@0': 0xf8}.get(label)
    n_in = 0
    for sd in seeds:
        if len(sd) > 600:
            continue
        for tag, b in bytefam.i12_magic(sd):
            acc.counters['transitions'] = acc.counters.get('transitions', 0) + 1
            n_in += 1
            try:
                obj, n = cls.parse_immutable(b)
                back = bytes(obj.compose())
            except Exception:  # noqa  (C02 / C05)
                continue
            if n != len(b):
                continue
            got, sent = back[off:off + width], b[off:off + width]
            if mask is not None:
                got, sent = bytes((got[0] & mask,)) if got else got, bytes((sent[0] & mask,))
            if got != sent:
                acc.violation('field:%s:remapped_under_constant' % label,
                              'value %s at %s re-composes as %s when the message carries %s at offset %d'
                              % (sent.hex(), label, got.hex(), tag[1], tag[2]),
                              {'kind': 'magic', 'field': label, 'data': b, 'constant': tag[1], 'offset': tag[2]})
            acc.state(core.h64('magic', label, b))
    if ti == 0:
        acc.sample({'kind': 'magic', 'constants': [n for n, _ in bytefam.magic_constants()]}, 1)
    acc.count('magic_inputs', n_in)
    return acc.result()


# ---- string-coded enumerations -----------------------------------------------------------------------------
def _string_worker(_):
    acc = core.Acc()
    from cryptoparser.common.base import StringEnumParsableBase, StringEnumCaseInsensitiveParsable, OpaqueEnumParsable
    doc = classes.documented_errors()
    for c in classes.parse_entry_classes():
        if issubclass(c, StringEnumParsableBase):
            ci = issubclass(c, StringEnumCaseInsensitiveParsable)
            members = list(c)
            for m in members:
                code = m.value.code
                variants = [code]
                if ci:
                    variants += [code.upper(), code.lower(), code.title(), code.swapcase()]
                for vtxt in variants:
                    acc.count('transitions')
                    w = {'kind': 'string', 'enum': classes.qualname(c), 'text': vtxt}
                    try:
                        got, n = c.parse_immutable(vtxt.encode('ascii'))
                    except doc as e:
                        acc.violation('string:%s:member_rejected' % c.__name__, 'spelling %r of member %s rejected'
                                      % (vtxt, m.name), w)
                        continue
                    except Exception:  # noqa
                        continue
                    # the member expected is the one with the longest code matching; for the exact code it is m
                    same = [x for x in members if (x.value.code.lower() == vtxt.lower() if ci else x.value.code == vtxt)]
                    if got not in same or n != len(vtxt):
                        acc.violation('string:%s:wrong_member' % c.__name__, '%r decodes to %s (n=%d), expected %s'
                                      % (vtxt, got.name, n, m.name), w)
                    if vtxt == code:
                        try:
                            if bytes(got.compose()) != code.encode('ascii'):
                                acc.violation('string:%s:compose' % c.__name__, 'member %s composes to %r'
                                              % (m.name, bytes(got.compose())), w)
                        except Exception:  # noqa
                            pass
                # a member that is a proper prefix of another member followed by that member's tail
                for m2 in members:
                    if m2 is not m and m2.value.code.startswith(code) and len(m2.value.code) > len(code):
                        acc.count('transitions')
                        w = {'kind': 'string', 'enum': classes.qualname(c), 'text': m2.value.code}
                        try:
                            got, n = c.parse_immutable(m2.value.code.encode('ascii'))
                        except Exception:  # noqa
                            continue
                        if got is not m2 or n != len(m2.value.code):
                            acc.violation('string:%s:prefix_shadow' % c.__name__, '%r decodes to %s, not to %s'
                                          % (m2.value.code, got.name, m2.name), w)
            acc.state(core.h64('str', classes.qualname(c)))
        if issubclass(c, OpaqueEnumParsable):
            for m in c.get_enum_class():
                code = m.value.code.encode(c.get_encoding())
                wire = bytes((len(code),)) + code
                acc.count('transitions')
                w = {'kind': 'opaque', 'enum': classes.qualname(c), 'text': m.value.code}
                try:
                    got = c.parse_exact_size(wire)
                except Exception as e:  # noqa
                    acc.violation('opaque:%s:member_rejected' % c.__name__, 'name %r rejected: %s'
                                  % (m.value.code, core.ename(e)), w)
                    continue
                if got is not m:
                    acc.violation('opaque:%s:wrong_member' % c.__name__, '%r decodes to %s' % (m.value.code, got.name), w)
                elif hasattr(got, 'compose') and bytes(got.compose()) != wire:
                    acc.violation('opaque:%s:compose' % c.__name__, '%s composes to different bytes' % m.name, w)
                # names that are NOT members - the member's name with one stray octet (a letter, a byte that is no
                # valid UTF-8, NUL) before, inside and after it - must never decode to the member: rejected, or (in
                # list containers) preserved verbatim
                members_by_code = {x.value.code: x for x in c.get_enum_class()}
                strays = [code[:pos] + stray + code[pos:] for pos in sorted({0, len(code) // 2, len(code)})
                          for stray in (b'x', b'\xff', b'\x80', b'\xc3', b'\x00', b' ')]
                # ... and the member's name in another letter case: opaque names are compared octet by octet
                # (RFC 7301 s6: "opaque, non-empty byte strings")
                strays += [f(code) for f in (bytes.upper, bytes.lower, bytes.swapcase, bytes.title,
                                             lambda x: x[:1].swapcase() + x[1:], lambda x: x[:-1] + x[-1:].swapcase())
                           if f(code) != code]
                for name in strays:
                    if True:
                        if len(name) > 255:
                            continue
                        try:
                            if name.decode(c.get_encoding()) in members_by_code:
                                continue
                        except UnicodeDecodeError:
                            pass
                        acc.count('transitions')
                        w2 = {'kind': 'opaque', 'enum': classes.qualname(c), 'text': m.value.code, 'wire_name': name}
                        try:
                            got2 = c.parse_exact_size(bytes((len(name),)) + name)
                        except doc:
                            continue
                        except Exception:  # noqa (C02)
                            continue
                        acc.violation('opaque:%s:unknown_mapped' % c.__name__, 'the name %r, which is no member, decodes '
                                      'to %s' % (name, getattr(got2, 'name', got2)), w2)
            acc.state(core.h64('opq', classes.qualname(c)))
    # SSH name-lists: every member alone / first of two / unknown names preserved
    from cryptoparser.ssh import subprotocol as ssp
    for vcls in (ssp.SshKexAlgorithmVector, ssp.SshHostKeyAlgorithmVector, ssp.SshEncryptionAlgorithmVector,
                 ssp.SshMacAlgorithmVector, ssp.SshCompressionAlgorithmVector):
        en = vcls.get_param().item_class
        members = list(en)
        first = members[0].value.code
        names = [(m.value.code, m) for m in members]
        names += [('unknown-name@verif', None), (first + 'x', None), (first[:-1], None), (first.upper(), None)]
        known = {m.value.code for m in members}
        for m in members:      # algorithm names are case-sensitive (RFC 4251 s6): another case is another, unknown name
            for f in (str.upper, str.swapcase, str.title):
                if f(m.value.code) not in known and (f(m.value.code), None) not in names:
                    names.append((f(m.value.code), None))
        for name, m in names:
            for lst in ([name], [name, first], [first, name]):
                body = ','.join(lst).encode('ascii')
                wire = len(body).to_bytes(4, 'big') + body
                acc.count('transitions')
                w = {'kind': 'namelist', 'vector': vcls.__name__, 'names': lst}
                try:
                    obj = vcls.parse_exact_size(wire)
                except Exception as e:  # noqa
                    acc.violation('namelist:%s:rejected' % vcls.__name__, 'name-list %r rejected: %s'
                                  % (lst, core.ename(e)), w)
                    continue
                items = list(obj)
                idx = lst.index(name)
                if len(items) != len(lst):
                    acc.violation('namelist:%s:item_dropped' % vcls.__name__, '%r parsed to %d items' % (lst, len(items)),
                                  w)
                    continue
                it = items[idx]
                exp_members = [x for x in members if x.value.code == name]
                if exp_members:
                    if it is not exp_members[0]:
                        acc.violation('namelist:%s:wrong_member' % vcls.__name__, '%r decoded to %r' % (name, it), w)
                elif it != name:
                    acc.violation('namelist:%s:unknown_mapped' % vcls.__name__, 'unknown name %r became %r'
                                  % (name, it), w)
                if bytes(obj.compose()) != wire:
                    acc.violation('namelist:%s:not_bit_exact' % vcls.__name__, '%r re-composes differently' % (lst,), w)
        acc.state(core.h64('namelist', vcls.__name__))
    acc.sample({'string_enum_example': 'HttpHeaderFieldName member in 5 case spellings'}, 1)
    return acc.result()


def _static_worker(_):
    acc = core.Acc()
    static_aliases(acc)
    return acc.result()


def run(ctx):
    thorough = not ctx.quick
    ctx.pmap(_static_worker, [0], nproc=1)
    ctx.pmap(_string_worker, [0], nproc=1)
    items = []
    for fi, f in enumerate(factories()):
        n = len(space(f.get_byte_num(), thorough))
        step = max(256, n // 32)
        for lo in range(0, n, step):
            items.append((fi, lo, min(n, lo + step), thorough))
    ctx.pmap(_factory_worker, items)
    items = []
    for vi, v in enumerate(code_vectors()):
        n = 256 ** v.get_param().item_class.get_byte_num()
        step = max(256, n // 32)
        for lo in range(0, n, step):
            items.append((vi, lo, min(n, lo + step)))
    ctx.pmap(_vector_worker, items)
    nv = len(code_vectors())
    ctx.pmap(_history_worker, [(a, b, thorough) for a in range(nv) for b in range(nv) if a != b], fresh=True)
    ctx.pmap(_hello_worker, [(p, 16, thorough) for p in range(16)])
    ctx.pmap(_field_worker, [(i, thorough) for i in range(len(field_table()))])
    ctx.pmap(_magic_worker, list(range(len(field_table()))))
    ctx.assumptions += [
        'cryptodatahub enumeration tables are data (trusted base); the no-alias clause is still evaluated on them',
        'RFC 8701 GREASE sets: 0x?a?a (two-byte) and 0x0b+0x1f*k (one-byte)',
        '4-byte spaces: every code with <= 2 non-zero bytes from a boundary byte set (the property allows a '
        'boundary sample there); 3-byte space complete in the thorough tier',
    ]
    return ctx.finish(rule='all 2^8 / 2^16 codes of every factory alone and as only/first/second element of its list; '
                           'every ordered pair of list containers as a two-step history in a fresh process (parse '
                           'code c in A, then the full oracle for c in B; c over 0..255, both tables and GREASE - the '
                           'whole common space in the thorough tier); '
                           'cipher-suite codes inside a client hello composed three times; 3-byte space (<=2 non-zero bytes quick, all 2^24 thorough); IntEnum-typed fields '
                           'substituted in place over their whole space, and under every library-defined constant spliced at every '
                           'offset; every member (and case spelling, prefix '
                           'pair) of every string-coded enumeration; static no-alias clause over every enumeration')


def replay(ctx, w):
    acc = core.Acc()
    k = w['kind']
    if k == 'alias':
        static_aliases(acc)
        for v in acc.violations.values():
            if v['witness']['enum'] == w['enum']:
                return v
        return None
    if k == 'factory':
        for fi, f in enumerate(factories()):
            if classes.qualname(f) == w['factory']:
                sp = list(space(f.get_byte_num(), True))
                i = sp.index(w['code'])
                res = _factory_worker((fi, i, i + 1, True))
                return res[1][0] if res[1] else None
    if k == 'vector':
        for vi, v in enumerate(code_vectors()):
            if classes.qualname(v) == w['vector']:
                res = _vector_worker((vi, w['code'], w['code'] + 1))
                return res[1][0] if res[1] else None
    if k == 'hello':
        res = _hello_worker((0, 1, True, w['code']))
        for v in res[1]:
            if v['witness'].get('code') == w.get('code') and v['witness'].get('context') == w.get('context'):
                return v
        return res[1][0] if res[1] else None
    if k == 'history':
        vecs = [classes.qualname(v) for v in code_vectors()]
        res = _history_worker((vecs.index(w['after']), vecs.index(w['vector']), True))
        for v in res[1]:
            if v['witness'] == w:
                return v
        return None
    if k == 'field':
        for ti, row in enumerate(field_table()):
            if row[0] == w['field']:
                res = _field_worker((ti, True))
                for v in res[1]:
                    if v['witness']['code'] == w['code']:
                        return v
                return res[1][0] if res[1] else None
    if k == 'magic':
        for ti, row in enumerate(field_table()):
            if row[0] == w['field']:
                res = _magic_worker(ti)
                for v in res[1]:
                    if v['witness']['constant'] == w['constant']:
                        return v
                return res[1][0] if res[1] else None
        return None
    res = _string_worker(0)
    for v in res[1]:
        if v['witness'] == w:
            return v
    return None
