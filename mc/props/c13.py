"""C13 - observers are pure and objects never share state with inputs or each other.

(a) observer histories on real objects (state = canonical dump + process-level encoder state),
(b) buffer aliasing after parsing from a caller-owned bytearray,
(c) shared mutable defaults: construct / mutate in place / construct again.
"""
import copy
import itertools
import json

import attr

from mc import canon, classes, core, harvest_objects, objects
from mc.props import c02

import re
# default object reprs (and asn1crypto's) carry a memory address / id(): not part of the value
_ADDR = re.compile(r' at 0x[0-9a-fA-F]+|(?<=[A-Za-z]) \d{9,}(?= b[\'"])')

OBSERVERS = ('compose', 'ja3', 'hassh', 'hassh_server', 'fingerprints', 'key_bytes', 'host_key_asdict', 'key_tag',
             'as_json', 'as_markdown', '_asdict', '__str__', '__repr__', '__eq__', '__hash__')


def process_state():
    from cryptoparser.common.base import Serializable
    return (type(Serializable.post_text_encoder).__name__, id(json.JSONEncoder.default))


def available_observers(o):
    out = []
    cls = type(o)
    for name in OBSERVERS:
        a = None
        for k in cls.__mro__:
            if name in k.__dict__:
                a = k.__dict__[name]
                break
        if a is None:
            continue
        if name in ('__str__', '__repr__', '__eq__', '__hash__') and not getattr(k, '__module__', '').startswith(
                ('cryptoparser.', 'cryptodatahub.')) and not attr.has(cls):
            continue
        if name == '__hash__' and a is None:
            continue
        out.append(name)
    return out


def run_observer(o, name, twin):
    if name == '__eq__':
        f = lambda: o == twin  # noqa
    elif name == '__str__':
        f = lambda: str(o)  # noqa
    elif name == '__repr__':
        f = lambda: repr(o)  # noqa
    elif name == '__hash__':
        f = lambda: hash(o)  # noqa
    else:
        a = getattr(type(o), name, None)
        if isinstance(a, property):
            f = lambda: getattr(o, name)  # noqa
        else:
            f = getattr(o, name)
    try:
        r = f()
        if isinstance(r, (bytes, bytearray)):
            r = ('bytes', bytes(r))
        else:
            r = ('val', _ADDR.sub(' @', repr(canon.dump(r, eq=True)))[:4000])
        return r
    except core.Timeout:
        raise
    except BaseException as e:  # noqa - observers may fail (size bound reached); purity is demanded either way
        return ('raised', core.ename(e))


def same_observable_state(o, twin, eq_is_meaningful):
    """The object equals its earlier copy.  Equal canonical dumps decide at once; otherwise the difference may sit in
    private, non-constructor state only (an implementation is free to cache an answer there - whether the cache
    is *correct* is decided by the result clauses and by the edit histories (d)): then the constructor-argument
    values must be equal and, where the class defines a meaningful ==, the library's own == must hold."""
    if canon.dump(o) == canon.dump(twin):
        return True
    try:
        if objects.value_dump(o) != objects.value_dump(twin):
            return False
        if eq_is_meaningful and not (o == twin):
            return False
    except Exception:  # noqa
        return False
    return True


def check_observers(acc, o, label, wit, seq_depth):
    """Applies every available observer from the same state; invariant after every event; then all sequences of
    length <= seq_depth (validating that equal dumps imply equal futures)."""
    try:
        twin = copy.deepcopy(o)
    except Exception:  # noqa
        return
    d0 = canon.dump(o)
    p0 = process_state()
    obs = available_observers(o)
    first = {}
    cname = type(o).__name__
    try:
        eq_ok = type(o).__eq__ is not object.__eq__ and bool(copy.deepcopy(twin) == twin)
    except Exception:  # noqa
        eq_ok = False
    for name in obs:
        acc.counters['transitions'] = acc.counters.get('transitions', 0) + 1
        r = run_observer(o, name, twin)
        first[name] = r
        if not same_observable_state(o, twin, eq_ok):
            dp = canon.first_diff(canon.dump(twin, eq=True), canon.dump(o, eq=True))
            acc.violation('observer_mutates:%s:%s:%s' % (_definer(o, name), name, r[0]),
                          '%s.%s() %s and left the object changed at %s' % (cname, name.strip('_'),
                                                                           'raised ' + r[1] if r[0] == 'raised' else 'returned', dp),
                          dict(wit, observer=name))
            o = copy.deepcopy(twin)
        if process_state() != p0:
            acc.violation('observer_leaks_process_state:%s' % name, '%s.%s() changed Serializable.post_text_encoder / '
                          'json default' % (cname, name), dict(wit, observer=name))
    # second application and sequences: the result of an observer may depend on the state only
    seqs = [(n,) for n in obs]
    if seq_depth >= 2:
        seqs = []
        for n in range(1, seq_depth + 1):
            seqs += list(itertools.product(obs, repeat=n))
    for seq in seqs:
        o2 = copy.deepcopy(twin)
        for name in seq:
            acc.counters['transitions'] = acc.counters.get('transitions', 0) + 1
            r = run_observer(o2, name, twin)
            if name in ('__str__', '__repr__'):
                # str()/repr() are events (they must not change the object) but their text is not one of the
                # property's observers: third-party reprs embed ids and lazily parsed state
                continue
            if r != first[name]:
                acc.violation('observer_result_changes:%s:%s' % (_definer(o2, name), name),
                              '%s.%s() returned a different result the second time / after %s'
                              % (cname, name.strip('_'), list(seq)), dict(wit, observer=name, sequence=list(seq)))
                break
            # repeat on the SAME object as well ("any number of times")
            r = run_observer(o2, name, twin)
            if r != first[name]:
                acc.violation('observer_result_changes:%s:%s' % (_definer(o2, name), name),
                              '%s.%s() called twice in a row returns different results' % (cname, name.strip('_')),
                              dict(wit, observer=name, sequence=list(seq)))
                break
        if not same_observable_state(o2, twin, eq_ok):
            acc.violation('observer_sequence_mutates:%s' % cname, 'after observers %s the object differs from its copy'
                          % (list(seq),), dict(wit, sequence=list(seq)))
    acc.state(core.h64(label, repr(d0)[:2000]))


def _definer(o, name):
    for k in type(o).__mro__:
        if name in k.__dict__:
            return k.__name__
    return type(o).__name__


# ---- (a) ---------------------------------------------------------------------------------------------------
def _observer_worker(args):
    qn, idx, depth, seq_depth = args
    acc = core.Acc()
    cls = classes.class_by_name(qn)
    objs = objects.seed_objects().get(cls, [])
    if idx >= len(objs):
        return acc.result()
    seed = objs[idx]
    import enum
    if isinstance(seed, enum.Enum):
        return acc.result()
    with core.watchdog(1200):
        for path, o, stats in objects.neighbourhood(seed, depth, False, 3000):
            check_observers(acc, o, qn, {'part': 'a', 'cls': qn, 'seed': idx, 'path': list(path)}, seq_depth)
    if idx == 0:
        acc.sample({'part': 'a', 'cls': qn, 'observers': available_observers(seed)}, 1)
    return acc.result()


def size_bound_objects():
    """Objects at a size bound: client hellos whose cipher-suite vector is 0, 1, 2 entries below its ceiling."""
    from cryptodatahub.tls.algorithm import TlsCipherSuite
    from cryptoparser.tls import subprotocol as sp
    import datetime
    out = []
    suites = list(TlsCipherSuite)
    maxn = sp.TlsCipherSuiteVector.get_param().max_byte_num // 2
    rnd = sp.TlsHandshakeHelloRandom(datetime.datetime(2020, 1, 1), sp.TlsHandshakeHelloRandomBytes(bytes(range(28))))
    for below in (0, 1, 2):
        for fb in (False, True):
            for reneg in (False, True):
                n = maxn - below
                vec = [suites[i % len(suites)] for i in range(n)]
                out.append(('client_hello_suites_max-%d_fallback=%s_reneg=%s' % (below, fb, reneg),
                            lambda vec=vec, fb=fb, reneg=reneg: sp.TlsHandshakeClientHello(
                                vec, random=rnd, fallback_scsv=fb, empty_renegotiation_info_scsv=reneg)))
    return out


def _bound_worker(i):
    acc = core.Acc()
    label, mk = size_bound_objects()[i]
    o = mk()
    check_observers(acc, o, label, {'part': 'a-bound', 'object': label}, 1)
    acc.sample({'part': 'a-bound', 'object': label}, 1)
    return acc.result()


# ---- (b) ---------------------------------------------------------------------------------------------------
def mutable_leaves(o):
    for x in harvest_objects.walk(o):
        if isinstance(x, bytearray):
            yield x
    # walk() skips bytes-likes as leaves; collect bytearray attributes explicitly
    seen = set()
    stack = [o]
    while stack:
        cur = stack.pop()
        if id(cur) in seen:
            continue
        seen.add(id(cur))
        if isinstance(cur, bytearray):
            yield cur
            continue
        if isinstance(cur, (list, tuple, set, frozenset)):
            stack.extend(cur)
        elif isinstance(cur, dict):
            stack.extend(cur.values())
        else:
            d = getattr(cur, '__dict__', None)
            if d and type(cur).__module__.startswith('cryptoparser.'):
                stack.extend(d.values())


def _alias_worker(args):
    qn, = args
    acc = core.Acc()
    cls = classes.class_by_name(qn)
    for seed in c02.all_seeds(qn):
        for entry in ('immutable', 'mutable', 'exact'):
            ba = bytearray(seed)
            acc.counters['transitions'] = acc.counters.get('transitions', 0) + 1
            try:
                if entry == 'immutable':
                    o = cls.parse_immutable(ba)[0]
                elif entry == 'mutable':
                    o = cls.parse_mutable(ba)
                else:
                    o = cls.parse_exact_size(ba)
            except Exception:  # noqa
                continue
            w = {'part': 'b', 'cls': qn, 'entry': entry, 'data': seed}
            d0 = canon.dump(o)
            leaves = [x for x in mutable_leaves(o)]
            if any(x is ba for x in leaves):
                acc.violation('aliases_input:%s' % _parse_definer(cls), '%s.parse_%s keeps the caller\'s buffer object'
                              % (cls.__name__, entry), w)
            # buffer events: overwrite every position with its complement, reverse, extend, clear
            for ev in ('complement', 'reverse', 'extend', 'clear'):
                acc.counters['transitions'] = acc.counters.get('transitions', 0) + 1
                if ev == 'complement':
                    for i in range(len(ba)):
                        ba[i] ^= 0xff
                elif ev == 'reverse':
                    ba.reverse()
                elif ev == 'extend':
                    ba.extend(b'\xaa\x55')
                else:
                    ba.clear()
                if canon.dump(o) != d0:
                    acc.violation('buffer_event_changes_object:%s' % _parse_definer(cls),
                                  'after parse_%s, %s of the input buffer changed the parsed %s'
                                  % (entry, ev, cls.__name__), dict(w, event=ev))
                    break
            # conversely: mutating a mutable leaf of the object must not reach a fresh caller buffer
            ba2 = bytearray(seed)
            try:
                o2 = cls.parse_immutable(ba2)[0]
            except Exception:  # noqa
                continue
            before = bytes(ba2)
            for leaf in mutable_leaves(o2):
                leaf.extend(b'\x01')
                if len(leaf):
                    leaf[0] ^= 0xff
            if bytes(ba2) != before:
                acc.violation('object_mutation_reaches_buffer:%s' % _parse_definer(cls),
                              'mutating the parsed %s changed the caller\'s buffer' % cls.__name__, w)
        acc.state(core.h64('alias', qn, seed))
    return acc.result()


def _parse_definer(cls):
    for k in cls.__mro__:
        if '_parse' in k.__dict__:
            return k.__name__
    return cls.__name__


# ---- (c) ---------------------------------------------------------------------------------------------------
def constructible_with_defaults():
    """[(class, required kwargs, defaulted argument names)] - see objects.constructible_with_defaults."""
    return objects.constructible_with_defaults(objects.base_seed_objects())


def in_place_mutations(v):
    """[(label, function)] in-place mutators the type of v offers."""
    from cryptoparser.common.base import ArrayBase
    muts = []
    if isinstance(v, bytearray):
        muts.append(('bytearray.append', lambda x: x.append(0x5a)))
        muts.append(('bytearray.setitem', lambda x: x.__setitem__(0, (x[0] ^ 0xff) if len(x) else 0)))
    elif isinstance(v, list):
        muts.append(('list.append', lambda x: x.append(x[0] if x else 0)))
        muts.append(('list.clear', lambda x: x.clear()))
    elif isinstance(v, dict):
        muts.append(('dict.setitem', lambda x: x.__setitem__('x-verif', 'v')))
        muts.append(('dict.update', lambda x: x.update({'y-verif': None})))
    elif isinstance(v, set):
        muts.append(('set.add', lambda x: x.add('x-verif')))
    elif isinstance(v, ArrayBase):
        def arr_edit(x):
            items = list(x)
            for cand in [items[0]] if items else []:
                try:
                    x.append(cand)
                    return
                except Exception:  # noqa
                    pass
            for tag, it in objects.array_item_alphabet(x, False):
                try:
                    x.append(it)
                    return
                except Exception:  # noqa
                    continue
            if items:
                try:
                    x[0] = items[-1] if items[-1] is not items[0] else (0 if isinstance(items[0], int) and items[0] else 1)
                    return
                except Exception:  # noqa
                    pass
                del x[0]
        muts.append(('vector.edit', arr_edit))
    return muts


def mutable_paths(o, depth=0, prefix=''):
    """[(path, value)] of in-place mutable values reachable from o (attrs fields / __dict__)."""
    from cryptoparser.common.base import ArrayBase
    out = []
    if depth > 3:
        return out
    names = []
    if attr.has(type(o)):
        names = [f.name for f in attr.fields(type(o))]
    elif hasattr(o, '__dict__'):
        names = list(vars(o))
    for n in names:
        if n == 'param':
            continue
        try:
            v = getattr(o, n)
        except AttributeError:
            continue
        p = prefix + '.' + n
        if isinstance(v, (bytearray, list, dict, set, ArrayBase)):
            out.append((p, v))
            if isinstance(v, ArrayBase):
                continue
        elif objects.is_lib_object(v) and type(v).__module__.startswith('cryptoparser.'):
            out.append((p, v))
            out += mutable_paths(v, depth + 1, p)
    return out


def _resolve(o, path):
    cur = o
    for part in path.strip('.').split('.'):
        cur = getattr(cur, part)
    return cur


def _defaults_worker(i):
    acc = core.Acc()
    cls, kwargs, defaulted = constructible_with_defaults()[i]
    qn = classes.qualname(cls)
    nc = objects._not_constructible()
    try:
        a = cls(**kwargs)
        b = cls(**kwargs)
    except nc:
        return acc.result()
    for path, va in mutable_paths(a):
        top = path.strip('.').split('.')[0]
        if top not in defaulted and ('_' + top) not in defaulted and top.lstrip('_') not in defaulted:
            continue
        try:
            vb = _resolve(b, path)
        except AttributeError:
            continue
        muts = in_place_mutations(va)
        if not muts and objects.is_lib_object(va):
            # attribute assignment on a nested default object is an in-place edit of that object
            for tag, mk in objects.neighbours_lazy(va, False, 0)[:3]:
                def setter(x, mk=mk):
                    n = mk()
                    for f in (attr.fields(type(x)) if attr.has(type(x)) else []):
                        try:
                            if canon.dump(getattr(n, f.name)) != canon.dump(getattr(x, f.name)):
                                object.__setattr__(x, f.name, getattr(n, f.name))
                                return
                        except AttributeError:
                            continue
                muts.append(('setattr:' + tag.split('=')[0], setter))
        for mlabel, mut in muts:
            # history: construct a, construct b (done), mutate a.path in place, construct c
            try:
                a = cls(**kwargs)
                b = cls(**kwargs)
                va = _resolve(a, path)
                vb = _resolve(b, path)
            except (nc + (AttributeError,)):
                break
            before_b = canon.dump(vb)
            pristine = canon.dump(_resolve(cls(**kwargs), path)) if va is vb else None
            acc.counters['transitions'] = acc.counters.get('transitions', 0) + 3
            try:
                mut(va)
            except Exception:  # noqa - the edit itself was refused: nothing to observe
                continue
            w = {'part': 'c', 'cls': qn, 'path': path, 'mutator': mlabel}
            if canon.dump(vb) != before_b:
                acc.violation('shared_default:%s:%s' % (_field_owner(cls, path), path.strip('.').split('.')[-1]),
                              'editing %s%s of one %s in place (%s) changed another instance'
                              % (cls.__name__, path, cls.__name__, mlabel), w)
                _repair_default(va, before_b, mut)
                continue
            try:
                c = cls(**kwargs)
                vc = _resolve(c, path)
            except (nc + (AttributeError,)):
                continue
            if vc is va:
                acc.violation('shared_default:%s:%s' % (_field_owner(cls, path), path.strip('.').split('.')[-1]),
                              'a %s constructed later received the edited default for %s' % (cls.__name__, path), w)
            acc.state(core.h64('default', qn, path, mlabel))
    acc.sample({'part': 'c', 'cls': qn, 'defaulted_fields': defaulted}, 1)
    return acc.result()


def _field_owner(cls, path):
    parts = path.strip('.').split('.')
    if len(parts) == 1:
        for k in cls.__mro__:
            if attr.has(k) and any(f.name == parts[0] for f in attr.fields(k) if f.name in k.__dict__.get('__annotations__', {}) or True):
                pass
        return cls.__name__
    return cls.__name__


def _repair_default(va, before, mut):
    """Undo the edit on the shared default so that later work items in this process see the pristine value."""
    try:
        if isinstance(va, bytearray):
            if len(va):
                va[0] ^= 0xff if False else 0
            if va[-1:] == b'\x5a':
                del va[-1]
        elif isinstance(va, dict):
            va.pop('x-verif', None)
            va.pop('y-verif', None)
        elif isinstance(va, set):
            va.discard('x-verif')
        elif isinstance(va, list) and va:
            va.pop()
    except Exception:  # noqa
        pass


# ---- (d) use, edit in place, use again: no observer may answer from before the edit ------------------------------
VALUE_OBSERVERS = ('compose', 'ja3', 'hassh', 'hassh_server', 'fingerprints', 'key_bytes', 'host_key_asdict', 'key_tag',
                   'as_json', 'as_markdown', '_asdict')


def check_edit_histories(acc, o, wit, names=VALUE_OBSERVERS, wide=False, sigprefix='stale_after_edit', purity=False):
    """For every in-place edit of o (objects.inplace_variants): a copy of o is observed with every observer, edited in
    place, and observed again; each answer must equal the answer of the same value built by construction and never
    observed before.  Returns the number of histories run."""
    nc = objects._not_constructible()
    try:
        variants = objects.inplace_variants(o, wide, partial=purity)
    except nc:
        return 0
    n = 0
    for tag, rebuilt, inplace in variants:
        try:
            a = rebuilt()
        except nc:
            if not (purity and tag.endswith('!only')):
                continue
            # the constructor refuses the value the single assignment produces: the edited object still exists
            try:
                a = inplace(None)
            except nc + (AttributeError,):
                continue
        obs = [x for x in available_observers(a) if x in names]
        if not obs:
            continue

        def warm(c, obs=obs):
            for x in obs:
                run_observer(c, x, c)
        try:
            b = inplace(warm)
        except nc + (AttributeError,):
            continue
        # a state that only an in-place edit reaches (the constructor would have completed or refused it) is still a
        # state of the object: every observer, successful or not, must leave it as it found it
        if purity:
            try:
                check_observers(acc, copy.deepcopy(b), type(o).__name__ + ':edited',
                                dict(wit, tag=tag, after='in-place edit'), 1)
                acc.count('edited_states_observed')
            except nc:
                pass
        # the two histories must have reached the same *value*: equal dumps, or - because the dump also shows
        # private attributes in which an implementation may cache answers - equal constructor-argument values
        try:
            same = canon.dump(b, eq=True, tz=True) == canon.dump(a, eq=True, tz=True)
            if not same:
                same = objects.value_dump(a) == objects.value_dump(b)
        except Exception:  # noqa
            same = False
        if not same:
            acc.count('edit_histories_not_same_value')
            continue
        n += 1
        acc.counters['transitions'] = acc.counters.get('transitions', 0) + 3 * len(obs)
        for x in obs:
            ra, rb = run_observer(a, x, a), run_observer(b, x, b)
            if ra != rb:
                acc.violation('%s:%s:%s' % (sigprefix, _definer(b, x), x),
                              '%s.%s answers %s after the object was observed and then edited in place (%s); the equal '
                              'object built by construction answers %s' % (type(o).__name__, x.strip('_'),
                                                                          repr(rb)[:80], tag, repr(ra)[:80]),
                              dict(wit, tag=tag, observer=x))
                break
    return n


def _edit_worker(args):
    qn, idx, wide = args
    acc = core.Acc()
    cls = classes.class_by_name(qn)
    objs = objects.seed_objects().get(cls, [])
    if idx >= len(objs):
        return acc.result()
    with core.watchdog(1500):
        n = check_edit_histories(acc, objs[idx], {'part': 'd', 'cls': qn, 'seed': idx}, wide=wide, purity=True)
    acc.count('edit_histories', n)
    acc.state(core.h64('edit', qn, idx))
    return acc.result()


# ---- (e) two objects from the same bytes / the same parts never share state -------------------------------------
def _twin_worker(args):
    """parse(b) twice -> o1, o2.  Every in-place edit of o1 (vector events on every reachable vector, edits of every
    mutable leaf of nested objects) must leave o2 unchanged."""
    qn, = args
    acc = core.Acc()
    cls = classes.class_by_name(qn)
    seeds = [b for b in c02.seeds_of(qn)][:3]
    nc = objects._not_constructible()
    for si, b in enumerate(seeds):
        try:
            o1 = cls.parse_exact_size(b)
        except Exception:  # noqa
            continue
        for path, mutate in mutable_paths_events(o1):
            try:
                a = cls.parse_exact_size(b)
                o2 = cls.parse_exact_size(b)
            except Exception:  # noqa
                break
            # (an object built from a's own field values legitimately holds the same nested objects; the copying
            #  contract of the vector constructors themselves is explored by C12)
            others = [('parsed_again', o2)]
            before = [canon.dump(x) for _, x in others]
            try:
                mutate(a)
            except Exception:  # noqa - refused edit
                continue
            acc.counters['transitions'] = acc.counters.get('transitions', 0) + len(others)
            acc.state(core.h64('twin', qn, si, path))
            for (label, x), d0 in zip(others, before):
                if canon.dump(x) != d0:
                    acc.violation('shared_state:%s:%s' % (label, _field_owner(cls, path)),
                                  'editing %s of one %s in place changed another object %s'
                                  % (path, cls.__name__, 'parsed from the same bytes' if label == 'parsed_again'
                                     else 'built from its field values'),
                                  {'part': 'e', 'cls': qn, 'seed': si, 'path': path, 'other': label})
                    break
    return acc.result()


def mutable_paths_events(o, prefix='', depth=0):
    """[(path, mutate(root))] - in-place edits of everything mutable reachable from o within two levels."""
    from cryptoparser.common.base import ArrayBase
    out = []
    if depth > 2:
        return out

    def resolve(root, path):
        cur = root
        for step in path:
            cur = list(cur)[step] if isinstance(step, int) else getattr(cur, step)
        return cur

    def walk(cur, path, depth):
        if isinstance(cur, ArrayBase):
            for tag, apply, _ in objects.array_events(cur):
                out.append(('.'.join(map(str, path)) + ':' + tag, lambda root, path=tuple(path), apply=apply: apply(resolve(root, path))))
            if depth < 2:
                for i, it in enumerate(list(cur)[:3]):
                    if objects.is_lib_object(it):
                        walk(it, path + [i], depth + 1)
            return
        if not attr.has(type(cur)) or isinstance(cur, __import__('enum').Enum):
            return
        for f in attr.fields(type(cur)):
            try:
                v = getattr(cur, f.name)
            except AttributeError:
                continue
            if isinstance(v, bytearray):
                out.append(('.'.join(map(str, path + [f.name])) + ':append-byte',
                            lambda root, path=tuple(path + [f.name]): resolve(root, path).append(0x41)))
            elif isinstance(v, list):
                out.append(('.'.join(map(str, path + [f.name])) + ':list-append',
                            lambda root, path=tuple(path + [f.name]): resolve(root, path).append(resolve(root, path)[0] if resolve(root, path) else 0)))
            elif isinstance(v, (dict, set)):
                out.append(('.'.join(map(str, path + [f.name])) + ':clear',
                            lambda root, path=tuple(path + [f.name]): resolve(root, path).clear()))
                if isinstance(v, set):
                    # a member to add: taken from the declared member type when the set is empty
                    mt = getattr(getattr(f.validator, 'member_validator', None), 'type', None)
                    cands = list(v)[:1]
                    if isinstance(mt, type) and issubclass(mt, __import__('enum').Enum):
                        cands = [m for m in mt if m not in v][:2] or cands
                    for k, m in enumerate(cands):
                        out.append(('.'.join(map(str, path + [f.name])) + ':add%d' % k,
                                    lambda root, path=tuple(path + [f.name]), m=m: resolve(root, path).add(m)))
                else:
                    out.append(('.'.join(map(str, path + [f.name])) + ':setitem',
                                lambda root, path=tuple(path + [f.name]): resolve(root, path).__setitem__('x-verif', 'v')))
            elif objects.is_lib_object(v) and depth < 2:
                walk(v, path + [f.name], depth + 1)
            elif isinstance(v, bool) and path:
                out.append(('.'.join(map(str, path + [f.name])) + ':flip',
                            lambda root, path=tuple(path), name=f.name: setattr(resolve(root, path), name,
                                                                                not getattr(resolve(root, path), name))))
    walk(o, [], 0)
    return out


def run(ctx):
    so = objects.seed_objects()
    items = []
    seq_depth = 1 if ctx.quick else 2
    for cls in classes.parsable_classes():
        for i in range(len(so.get(cls, []))):
            items.append((classes.qualname(cls), i, 1, seq_depth))
    ctx.pmap(_observer_worker, items)
    ctx.pmap(_bound_worker, list(range(len(size_bound_objects()))))
    ctx.pmap(_alias_worker, [(classes.qualname(c),) for c in classes.parse_entry_classes()])
    ctx.pmap(_defaults_worker, list(range(len(constructible_with_defaults()))), nproc=min(core.NPROC, 8))
    eitems = []
    for cls in classes.parsable_classes():
        for i in range(len(so.get(cls, []))[:None if not ctx.quick else 3] if False else min(len(so.get(cls, [])), 3 if ctx.quick else 10 ** 6)):
            eitems.append((classes.qualname(cls), i, not ctx.quick))
    ctx.pmap(_edit_worker, eitems)
    ctx.pmap(_twin_worker, [(classes.qualname(c),) for c in classes.parse_entry_classes()])
    ctx.notes['classes_with_defaults'] = len(constructible_with_defaults())
    ctx.assumptions += [
        'the canonical dump (all attrs fields incl. private ones, __dict__, container kinds) plus '
        'Serializable.post_text_encoder / json default captures every piece of state an observer reads; '
        'the thorough tier replays all observer sequences of length <= 2 to test that',
        'aliasing is detected behaviourally: after overwriting/reversing/extending/clearing the caller\'s buffer '
        'the parsed object must be unchanged, and vice versa',
    ]
    return ctx.finish(rule='(a) every available observer (compose, ja3, hassh(_server), fingerprints, key_bytes, '
                           'host_key_asdict, key_tag, as_json, as_markdown, _asdict, str, repr, ==, hash) from every '
                           'object within 1 deviation of every seed object + 12 client hellos at the cipher-suite '
                           'ceiling, each twice (sequences <= %d); (b) 3 entry points x 4 buffer events per seed of '
                           'every class; (c) construct/mutate-in-place/construct histories for every class with '
                           'defaulted arguments; (d) for the first 3 (thorough: all) seed objects of every class: observe '
                           'with every value observer, edit in place (nested field, top-level field, vector event), '
                           'observe again - answers must equal those of the equal object built by construction; (e) '
                           'two parses of the same bytes: every in-place edit of one leaves the other unchanged'
                           % seq_depth)


def replay(ctx, w):
    acc = core.Acc()
    part = w.get('part')
    if part == 'd':
        res = _edit_worker((w['cls'], w['seed'], True))
        for v in res[1]:
            if v['witness'].get('tag') == w.get('tag'):
                return v
        res = _edit_worker((w['cls'], w['seed'], False))
        for v in res[1]:
            if v['witness'].get('tag') == w.get('tag'):
                return v
        return None
    if part == 'e':
        res = _twin_worker((w['cls'],))
        for v in res[1]:
            if v['witness'].get('path') == w.get('path') and v['witness'].get('other') == w.get('other'):
                return v
        return None
    if part == 'a':
        cls = classes.class_by_name(w['cls'])
        seed = objects.seed_objects()[cls][w['seed']]
        for path, o, stats in objects.neighbourhood(seed, len(w['path']), False, None):
            if list(path) == w['path']:
                check_observers(acc, o, w['cls'], w, 1)
                break
    elif part == 'a-bound':
        for i, (label, mk) in enumerate(size_bound_objects()):
            if label == w['object']:
                return (_bound_worker(i)[1] or [None])[0]
    elif part == 'b':
        res = _alias_worker((w['cls'],))
        for v in res[1]:
            return v
        return None
    else:
        for i, (cls, kwargs, d) in enumerate(constructible_with_defaults()):
            if classes.qualname(cls) == w['cls']:
                res = _defaults_worker(i)
                for v in res[1]:
                    if v['witness'].get('path') == w.get('path'):
                        return v
                return res[1][0] if res[1] else None
    vs = list(acc.violations.values())
    return vs[0] if vs else None
