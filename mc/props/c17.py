"""C17 - TLS protocol versions form a strict total order consistent with equality.

Complete enumeration: all ordered pairs, all ordered triples, all permutations of every 3-subset
through sorted/min/max, the full list under every rotation (and reversed), set/dict membership.
"""
import itertools

from mc import core


def _cat(v):
    from cryptodatahub.tls.version import TlsVersion
    if v.is_draft:
        return 'draft'
    if v.is_google_experimental:
        return 'gexp'
    if v.version == TlsVersion.TLS1_3:
        return 'tls1_3'
    return 'pre1_3'


def _versions():
    from cryptodatahub.tls.version import TlsVersion
    from cryptoparser.tls.version import TlsProtocolVersion
    return [TlsProtocolVersion(m) for m in TlsVersion]


def _versions_twins():
    """A second, independently obtained instance of every version (parsed from its composed bytes; a deep copy when
    the wire form is not accepted): equal to the first list member by member, but never the same object - identity
    shortcuts in the comparison operators show only between distinct equal objects."""
    import copy
    from cryptoparser.tls.version import TlsProtocolVersion
    out = []
    for v in _versions():
        try:
            t = TlsProtocolVersion.parse_exact_size(bytes(v.compose()))
        except Exception:  # noqa
            t = copy.deepcopy(v)
        out.append(t)
    return out


def _name(v):
    return v.version.name


def check_pair(a, b):
    """Returns list of (clause, what)."""
    out = []
    lt, eq, gt = a < b, a == b, a > b
    if [bool(lt), bool(eq), bool(gt)].count(True) != 1:
        out.append(('trichotomy', 'lt=%s eq=%s gt=%s' % (lt, eq, gt)))
    if bool(a <= b) != bool(lt or eq):
        out.append(('le', '<= inconsistent'))
    if bool(a >= b) != bool(gt or eq):
        out.append(('ge', '>= inconsistent'))
    if bool(a != b) == bool(eq):
        out.append(('ne', '!= not the negation of =='))
    same = a.version.value.code == b.version.value.code
    if bool(eq) != same:
        out.append(('eq_code', '== disagrees with code equality'))
    if eq and hash(a) != hash(b):
        out.append(('hash', 'equal versions hash differently'))
    if bool(lt) != bool(b > a):
        out.append(('converse', 'a<b differs from b>a'))
    return out


def expected_chain_lt(a, b):
    """The order the property states, where it states one; None where it is silent
    (Google experiment vs draft)."""
    from cryptodatahub.tls.version import TlsVersion
    ca, cb = _cat(a), _cat(b)
    base = [TlsVersion.SSL2, TlsVersion.SSL3, TlsVersion.TLS1, TlsVersion.TLS1_1, TlsVersion.TLS1_2]
    if ca == 'pre1_3' and cb == 'pre1_3':
        return base.index(a.version) < base.index(b.version)
    if ca == 'pre1_3':
        return True
    if cb == 'pre1_3':
        return False
    if ca == 'tls1_3':
        return False            # nothing is above TLS 1.3 (and a == b gives False)
    if cb == 'tls1_3':
        return True
    if ca == cb:                # drafts by draft number, experiments by number
        return a.minor < b.minor
    return None


def _pairs_and_triples(item):
    i, = item
    acc = core.Acc()
    vs = _versions()
    a = vs[i]
    # the same pair clauses between a and an independently obtained instance of every version (b is never `a`)
    for b in _versions_twins():
        acc.count('transitions')
        acc.count('twin_pairs')
        for x, y in ((a, b), (b, a)):
            for clause, what in check_pair(x, y):
                acc.violation('twinpair:%s:%s/%s' % (clause, _cat(x), _cat(y)), what + ' (distinct objects)',
                              {'kind': 'twinpair', 'a': _name(x), 'b': _name(y), 'twin_is': 'b' if x is a else 'a'})
    for b in vs:
        acc.count('transitions')
        acc.count('pairs')
        outcome = (bool(a < b), bool(a == b), bool(a > b))
        acc.state(core.h64('pair', i, _name(b)))
        acc.count('outcome_%s%s%s' % tuple(int(x) for x in outcome))
        for clause, what in check_pair(a, b):
            acc.violation('pair:%s:%s/%s' % (clause, _cat(a), _cat(b)), what,
                          {'kind': 'pair', 'a': _name(a), 'b': _name(b)})
        exp = expected_chain_lt(a, b)
        if exp is not None and bool(a < b) != exp:
            acc.violation('chain:%s/%s' % (_cat(a), _cat(b)),
                          'stated order violated: (%s < %s) is %s' % (_name(a), _name(b), a < b),
                          {'kind': 'pair', 'a': _name(a), 'b': _name(b)})
        for c in vs:
            acc.count('transitions')
            acc.count('triples')
            if a < b and b < c and not a < c:
                acc.violation('transitivity:%s<%s<%s' % (_cat(a), _cat(b), _cat(c)),
                              '%s < %s < %s but not %s < %s' % (_name(a), _name(b), _name(c), _name(a), _name(c)),
                              {'kind': 'triple', 'a': _name(a), 'b': _name(b), 'c': _name(c)})
    if i == 0:
        acc.sample({'pair': [_name(vs[5]), _name(vs[9])], 'lt': vs[5] < vs[9]})
    return acc.result()


def _sort_checks(item):
    i, = item
    acc = core.Acc()
    vs = _versions()
    n = len(vs)
    # every 3-subset containing index i as smallest index, all 6 permutations
    for j in range(i + 1, n):
        for k in range(j + 1, n):
            results = set()
            for perm in itertools.permutations((vs[i], vs[j], vs[k])):
                acc.count('transitions')
                acc.count('sorted3')
                s = tuple(_name(x) for x in sorted(perm))
                results.add((s, _name(min(perm)), _name(max(perm))))
            if len(results) != 1:
                acc.violation('sorted3:%s' % '/'.join(sorted({_cat(vs[i]), _cat(vs[j]), _cat(vs[k])})),
                              'sorted/min/max of the same three versions depends on arrival order',
                              {'kind': 'sorted3', 'a': _name(vs[i]), 'b': _name(vs[j]), 'c': _name(vs[k])})
    # full list, rotation i (and its reverse)
    from cryptodatahub.tls.version import TlsVersion
    rot = vs[i:] + vs[:i]
    for lst, tag in ((rot, 'rot'), (rot[::-1], 'rotrev')):
        acc.count('transitions')
        acc.count('full_list_orders')
        s = sorted(lst)
        mx, mn = max(lst), min(lst)
        # is the sorted result actually sorted w.r.t. <, and consistent with the stated chain?
        for x, y in zip(s, s[1:]):
            if not x < y:
                acc.violation('sorted_full:not_ascending:%s/%s' % (_cat(x), _cat(y)),
                              'sorted() output has adjacent %s, %s with not (x<y)' % (_name(x), _name(y)),
                              {'kind': 'sorted_full', 'rotation': i, 'order': tag})
                break
        if mx.version != TlsVersion.TLS1_3:
            acc.violation('max_full', 'max() of all versions is %s' % _name(mx),
                          {'kind': 'sorted_full', 'rotation': i, 'order': tag})
        if mn.version != TlsVersion.SSL2:
            acc.violation('min_full', 'min() of all versions is %s' % _name(mn),
                          {'kind': 'sorted_full', 'rotation': i, 'order': tag})
        acc.state(core.h64('full', tuple(_name(x) for x in s)))
    # set / dict membership
    from cryptoparser.tls.version import TlsProtocolVersion
    a = vs[i]
    twin = TlsProtocolVersion(a.version)
    st = set(vs)
    dc = {v: _name(v) for v in vs}
    acc.count('transitions', 2)
    if twin not in st or dc.get(twin) != _name(a) or len(st) != n:
        acc.violation('membership:%s' % _cat(a), 'set/dict membership of an equal version fails',
                      {'kind': 'membership', 'a': _name(a)})
    return acc.result()


def run(ctx):
    vs = _versions()
    n = len(vs)
    ctx.notes['versions'] = n
    ctx.pmap(_pairs_and_triples, [(i,) for i in range(n)])
    ctx.pmap(_sort_checks, [(i,) for i in range(n)])
    ctx.sample({'triple': ['TLS1_3_DRAFT_0', 'TLS1_3', 'TLS1_3_GOOGLE_EXPERIMENT_1'], 'checked': 'a<b & b<c => a<c'})
    ctx.assumptions += ['TlsVersion members are read by reflection from cryptodatahub (treated as data)',
                        'relative order of Google-experiment and draft versions is not stated by the property '
                        'and not demanded: any strict total order passes']
    outcomes = len([k for k in ctx.counters if k.startswith('outcome_')])
    return ctx.finish(
        rule='all %d members: all ordered pairs (also against an independently parsed equal instance of every member), all ordered triples, all permutations of every 3-subset via '
             'sorted/min/max, full list under all rotations and reversed, set/dict membership; '
             'state = distinct (pair | sorted full list)' % n,
        distinct_outcomes=outcomes)


def replay(ctx, w):
    vs = {_name(v): v for v in _versions()}
    kind = w['kind']
    acc = core.Acc()
    if kind == 'pair':
        a, b = vs[w['a']], vs[w['b']]
        for clause, what in check_pair(a, b):
            acc.violation('pair:%s:%s/%s' % (clause, _cat(a), _cat(b)), what, w)
        exp = expected_chain_lt(a, b)
        if exp is not None and bool(a < b) != exp:
            acc.violation('chain:%s/%s' % (_cat(a), _cat(b)), 'stated order violated', w)
    elif kind == 'twinpair':
        tw = {_name(v): v for v in _versions_twins()}
        a, b = (vs[w['a']], tw[w['b']]) if w.get('twin_is') == 'b' else (tw[w['a']], vs[w['b']])
        for clause, what in check_pair(a, b):
            acc.violation('twinpair:%s:%s/%s' % (clause, _cat(a), _cat(b)), what, w)
    elif kind == 'triple':
        a, b, c = vs[w['a']], vs[w['b']], vs[w['c']]
        if a < b and b < c and not a < c:
            acc.violation('transitivity:%s<%s<%s' % (_cat(a), _cat(b), _cat(c)), 'intransitive', w)
    elif kind == 'sorted3':
        tri = (vs[w['a']], vs[w['b']], vs[w['c']])
        res = {tuple(_name(x) for x in sorted(p)) for p in itertools.permutations(tri)}
        if len(res) != 1:
            acc.violation('sorted3:%s' % '/'.join(sorted({_cat(x) for x in tri})), 'order dependent', w)
    else:
        counters, viols, _, _ = _sort_checks((w.get('rotation', 0),))
        for v in viols:
            return v
    viols = list(acc.violations.values())
    return viols[0] if viols else None
