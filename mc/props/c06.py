"""C06 - SSL/TLS messages are laid out exactly as the RFCs specify.

Object side: every TLS object within k deviations of the seeds; oracle compose() == tls_ref encoding of the public
fields.  Wire side: spec-level field spaces encoded by tls_ref; oracle: the library parses them and recovers the
fields (read back through the same bridge).
"""
import calendar
import datetime
import itertools

from mc import canon, classes, core, objects
from mc.ref import tls_ref as ref


def code(x):
    import enum
    if isinstance(x, enum.IntEnum):
        return int(x)
    v = getattr(x, 'value', None)
    if v is not None and hasattr(v, 'code'):
        return v.code
    if hasattr(x, 'code'):
        return x.code
    return int(x)


def gmt(dt):
    if dt.tzinfo is not None:
        dt = dt.astimezone(datetime.timezone.utc).replace(tzinfo=None)
    return calendar.timegm(dt.timetuple())


def version_code(v):
    if hasattr(v, 'version'):
        return v.version.value.code
    return code(v)


class NoBridge(Exception):
    pass


def extension_fields(e):
    """-> (type code, extension_data bytes) from the public attributes of an extension object"""
    tn = core.ename(e)
    t = code(e.extension_type)
    if tn == 'TlsExtensionUnparsed':
        return t, bytes(e.extension_data)
    if tn in ('TlsExtensionServerNameServer', 'TlsExtensionCertificateStatusRequestServer',
              'TlsExtensionNextProtocolNegotiationClient', 'TlsExtensionChannelId', 'TlsExtensionEncryptThenMAC',
              'TlsExtensionExtendedMasterSecret', 'TlsExtensionShortRecordHeader',
              'TlsExtensionSignedCertificateTimestampClient'):
        return t, b''
    if tn == 'TlsExtensionServerNameClient':
        return t, ref.ext_server_name(e.host_name.encode('idna'), int(e.name_type))
    if tn == 'TlsExtensionECPointFormats':
        return t, ref.ext_ec_point_formats([code(x) for x in e.point_formats])
    if tn == 'TlsExtensionEllipticCurves':
        return t, ref.ext_supported_groups([code(x) for x in e.elliptic_curves])
    if tn == 'TlsExtensionSupportedVersionsClient':
        return t, ref.ext_supported_versions_client([version_code(x) for x in e.supported_versions])
    if tn == 'TlsExtensionSupportedVersionsServer':
        return t, ref.ext_supported_versions_server(version_code(e.selected_version))
    if tn in ('TlsExtensionSignatureAlgorithms', 'TlsExtensionSignatureAlgorithmsCert', 'TlsExtensionDelegatedCredentials'):
        return t, ref.ext_signature_algorithms([code(x) for x in e.hash_and_signature_algorithms])
    if tn in ('TlsExtensionKeyShareClient', 'TlsExtensionKeyShareReservedClient'):
        ents = []
        for k in e.key_share_entries:
            if hasattr(k, 'key_exchange'):
                ents.append((code(k.group), bytes(bytearray(k.key_exchange))))
            else:
                ents.append((code(k.group), bytes(k.data)))
        return t, ref.ext_key_share_client(ents)
    if tn == 'TlsExtensionKeyShareServer':
        k = e.key_share_entry
        return t, ref.ext_key_share_server(code(k.group), bytes(bytearray(k.key_exchange)))
    if tn == 'TlsExtensionKeyShareClientHelloRetry':
        return t, ref.ext_key_share_hrr(code(e.selected_group))
    if tn == 'TlsExtensionCertificateStatusRequestClient':
        return t, ref.ext_status_request([bytes(bytearray(r)) for r in e.responder_id_list],
                                         bytes(bytearray(e.request_extensions)))
    if tn == 'TlsExtensionRenegotiationInfo':
        return t, ref.ext_renegotiation_info(bytes(bytearray(e.renegotiated_connection)))
    if tn == 'TlsExtensionSessionTicket':
        return t, bytes(e.session_ticket)
    if tn in ('TlsExtensionApplicationLayerProtocolNegotiation', 'TlsExtensionApplicationLayerProtocolSettings'):
        return t, ref.ext_alpn([x.value.code.encode('utf-8') for x in e.protocol_names])
    if tn == 'TlsExtensionNextProtocolNegotiationServer':
        return t, ref.ext_npn_server([x.value.code.encode('utf-8') for x in e.protocol_names])
    if tn == 'TlsExtensionTokenBinding':
        return t, ref.ext_token_binding(e.protocol_version.major, e.protocol_version.minor,
                                        [code(x) for x in e.parameters])
    if tn == 'TlsExtensionPskKeyExchangeModes':
        return t, ref.ext_psk_key_exchange_modes([code(x) for x in e.key_exchange_modes])
    if tn == 'TlsExtensionRecordSizeLimit':
        return t, ref.ext_record_size_limit(e.record_size_limit)
    if tn == 'TlsExtensionCompressCertificate':
        return t, ref.ext_compress_certificate([code(x) for x in e.compression_algorithms])
    if tn == 'TlsExtensionPadding':
        return t, ref.ext_padding(e.length)
    if tn == 'TlsExtensionSignedCertificateTimestampServer':
        return t, ref.ext_sct_list([sct_body(s) for s in e.scts])
    raise NoBridge(tn)


def sct_body(s):
    ts = s.timestamp
    if ts.tzinfo is None:
        ts = ts.replace(tzinfo=datetime.timezone.utc)
    delta = ts - datetime.datetime(1970, 1, 1, tzinfo=datetime.timezone.utc)
    ms = (delta.days * 86400 + delta.seconds) * 1000 + delta.microseconds // 1000
    sa = code(s.signature_algorithm)
    return ref.sct(int(s.version), bytes(s.log.log_id.value), ms, bytes(bytearray(s.extensions)), sa >> 8, sa & 0xff,
                   bytes(bytearray(s.signature)))


def ext_list(exts, always_block=False):
    lst = [extension_fields(e) for e in exts]
    if not lst and not always_block:
        return None
    return lst


def reference_bytes(o):
    tn = type(o).__name__
    if tn == 'TlsRecord':
        return ref.record(int(o.content_type), version_code(o.protocol_version), bytes(o.fragment))
    if tn == 'SslRecord':
        return ref.ssl2_record(ref.u8(int(o.message.get_message_type())) + reference_bytes(o.message))
    if tn == 'TlsAlertMessage':
        return ref.alert(int(o.level), int(o.description))
    if tn == 'TlsChangeCipherSpecMessage':
        return ref.change_cipher_spec()
    if tn == 'TlsHandshakeClientHello':
        suites = [code(x) for x in o.cipher_suites]
        if o.fallback_scsv:
            suites.append(0x5600)
        if o.empty_renegotiation_info_scsv:
            suites.append(0x00ff)
        return ref.client_hello(version_code(o.protocol_version), gmt(o.random.time), bytes(bytearray(o.random.random)),
                                bytes(bytearray(o.session_id)), suites, [code(x) for x in o.compression_methods],
                                ext_list(o.extensions))
    if tn in ('TlsHandshakeServerHello', 'TlsHandshakeHelloRetryRequest'):
        rnd = o.random if tn == 'TlsHandshakeServerHello' else o.random_bytes
        return ref.server_hello(version_code(o.protocol_version), gmt(rnd.time), bytes(bytearray(rnd.random)),
                                bytes(bytearray(o.session_id)), code(o.cipher_suite), code(o.compression_method),
                                ext_list(o.extensions), 2 if tn == 'TlsHandshakeServerHello' else 6)
    if tn == 'TlsHandshakeCertificate':
        return ref.certificate([bytes(c.certificate) for c in o.certificate_chain])
    if tn == 'TlsHandshakeCertificateRequest':
        sa = None if o.supported_signature_algorithms is None else [code(x) for x in o.supported_signature_algorithms]
        return ref.certificate_request([code(x) for x in o.certificate_types], sa,
                                       [bytes(bytearray(dn)) for dn in o.certificate_authorities])
    if tn == 'TlsHandshakeCertificateStatus':
        return ref.certificate_status(int(o.status_type), bytes(o.status))
    if tn == 'TlsHandshakeServerHelloDone':
        return ref.server_hello_done()
    if tn == 'TlsHandshakeServerKeyExchange':
        return ref.server_key_exchange(bytes(o.param_bytes))
    if tn == 'SslErrorMessage':
        return ref.ssl2_error(int(o.error_type))[1:]
    if tn == 'SslHandshakeClientHello':
        return ref.ssl2_client_hello([code(k) for k in o.cipher_kinds], o.session_id, o.challenge)[1:]
    if tn == 'SslHandshakeServerHello':
        return ref.ssl2_server_hello(o.session_id_hit, o.certificate, [code(k) for k in o.cipher_kinds],
                                     o.connection_id)[1:]
    if tn.startswith('TlsExtension') and hasattr(o, 'extension_type'):
        t, d = extension_fields(o)
        if tn == 'TlsExtensionNextProtocolNegotiationServer':
            return ref.extension(t, d)
        return ref.extension(t, d)
    if tn in ('TlsExtensionsClient', 'TlsExtensionsServer'):
        return ref.extensions_block([extension_fields(e) for e in o])
    if tn == 'SignedCertificateTimestamp':
        return ref.vec(sct_body(o), 2 ** 16 - 1)
    if tn == 'SignedCertificateTimestampList':
        return ref.ext_sct_list([sct_body(s) for s in o])
    if tn == 'TlsProtocolVersion':
        return ref.u16(version_code(o))
    if tn == 'TlsHandshakeHelloRandom':     # RFC 5246 s7.4.1.2: uint32 gmt_unix_time; opaque random_bytes[28]
        return gmt(o.time).to_bytes(4, 'big') + bytes(bytearray(o.random))
    if tn == 'TlsCertificate':
        return ref.vec(bytes(o.certificate), 2 ** 24 - 1)
    if tn == 'TlsCertificates':
        return ref.vec(b''.join(ref.vec(bytes(c.certificate), 2 ** 24 - 1) for c in o), 2 ** 24 - 1)
    # stand-alone vectors with RFC ceilings
    table = {
        'TlsCipherSuiteVector': (2, 2 ** 16 - 2), 'TlsCompressionMethodVector': (1, 2 ** 8 - 1),
        'TlsSessionIdVector': (1, 32), 'TlsEllipticCurveVector': (2, 2 ** 16 - 1), 'TlsECPointFormatVector': (1, 255),
        'TlsSignatureAndHashAlgorithmVector': (2, 2 ** 16 - 2), 'TlsSupportedVersionVector': (2, 254),
        'TlsPskKeyExchangeModeVector': (1, 255), 'TlsCertificateCompressionAlgorithmVector': (2, 254),
        'TlsTokenBindingParamaterVector': (1, 255), 'TlsClientCertificateTypeVector': (1, 255),
        'TlsRenegotiatedConnection': (1, 255), 'TlsDistinguishedName': (1, 2 ** 16 - 1), 'TlsServerName': (1, 2 ** 16 - 1),
        'TlsKeyExchangeVector': (1, 2 ** 16 - 1), 'TlsCertificateStatusRequestResponderId': (1, 2 ** 16 - 1),
        'TlsCertificateStatusRequestExtensions': (1, 2 ** 16 - 1), 'CtExtensions': (1, 2 ** 16 - 1),
        'CtSignature': (1, 2 ** 16 - 1),
    }
    if tn in table:
        w, ceiling = table[tn]
        body = b''.join((version_code(x) if tn == 'TlsSupportedVersionVector' else code(x)).to_bytes(w, 'big') for x in o)
        return ref.vec(body, ceiling)
    if tn == 'TlsDistinguishedNameVector':
        return ref.vec(b''.join(ref.vec(bytes(bytearray(dn)), 2 ** 16 - 1) for dn in o), 2 ** 16 - 1)
    if tn in ('TlsProtocolNameList', 'TlsNextProtocolNameList'):
        return ref.vec(b''.join(ref.vec(x.value.code.encode('utf-8'), 255) for x in o), 2 ** 16 - 1)
    if tn == 'TlsKeyShareEntry':
        return ref.u16(code(o.group)) + ref.vec(bytes(bytearray(o.key_exchange)), 2 ** 16 - 1)
    raise NoBridge(tn)


def tls_classes():
    mods = ('cryptoparser.tls.record', 'cryptoparser.tls.subprotocol', 'cryptoparser.tls.extension',
            'cryptoparser.tls.version', 'cryptoparser.common.x509')
    return [c for c in classes.parsable_classes() if c.__module__ in mods]


def check_object(acc, cls, o, w):
    acc.counters['transitions'] = acc.counters.get('transitions', 0) + 1
    try:
        got = bytes(o.compose())
    except Exception:  # noqa (C01)
        return
    try:
        exp = reference_bytes(o)
    except NoBridge:
        acc.count('no_bridge')
        return
    except (OverflowError, ValueError, UnicodeError, AttributeError, TypeError):
        acc.count('not_encodable_by_reference')
        return
    tn = type(o).__name__
    if got != exp:
        i = next((k for k in range(min(len(got), len(exp))) if got[k] != exp[k]), min(len(got), len(exp)))
        acc.violation('layout:%s' % tn, '%s composes to bytes that differ from the RFC layout at offset %d (%d vs %d '
                      'bytes)' % (tn, i, len(got), len(exp)), dict(w, composed=got[:200], reference=exp[:200]))
        return
    acc.counters['transitions'] = acc.counters.get('transitions', 0) + 1
    pcls = type(o) if hasattr(type(o), 'parse_exact_size') else cls
    try:
        back = pcls.parse_exact_size(exp)
    except Exception as e:  # noqa
        acc.violation('reference_rejected:%s:%s' % (tn, core.ename(e)), 'RFC encoding of a %s is rejected' % tn, w)
        return
    try:
        if reference_bytes(back) != exp:
            acc.violation('fields_not_recovered:%s' % tn, 'parsing the RFC encoding of a %s yields different fields' % tn, w)
    except Exception:  # noqa
        pass


def _object_worker(args):
    qn, idx, depth = args
    acc = core.Acc()
    cls = classes.class_by_name(qn)
    objs = objects.seed_objects().get(cls, [])
    if idx >= len(objs):
        return acc.result()
    import enum
    if isinstance(objs[idx], enum.Enum):
        return acc.result()
    objects.AWARE_FOR_NAIVE = True      # layout check: aware spellings of the same instant must encode identically
    with core.watchdog(1500):
        for path, o, stats in objects.neighbourhood(objs[idx], depth, False, 6000):
            check_object(acc, cls, o, {'kind': 'object', 'cls': qn, 'seed': idx, 'path': list(path)})
            acc.state(core.h64(qn, repr(canon.dump(o))[:3000]))
    if idx == 0:
        acc.sample({'kind': 'object', 'cls': qn}, 1)
    return acc.result()


# ---- wire side: spec-level field spaces ------------------------------------------------------------------------------------
def spec_wire_forms(part):
    """yields (label, class, wire bytes, expected-fields-check function or None)"""
    from cryptodatahub.tls.version import TlsVersion
    from cryptodatahub.tls.algorithm import (TlsCipherSuite, TlsCompressionMethod, TlsNamedCurve, TlsECPointFormat,
                                             TlsSignatureAndHashAlgorithm)
    from cryptoparser.tls import subprotocol as sp, extension as ex, record as rec
    rnd = bytes(range(28))
    g = 1577836800
    if part == 'client_hello_versions_suites':
        for v in TlsVersion:
            yield ('ch_version', sp.TlsHandshakeClientHello,
                   ref.client_hello(v.value.code, g, rnd, b'', [0x002f], [0], None))
        for s in TlsCipherSuite:
            yield ('ch_suite', sp.TlsHandshakeClientHello, ref.client_hello(0x0303, g, rnd, b'', [s.value.code], [0], None))
            yield ('sh_suite', sp.TlsHandshakeServerHello, ref.server_hello(0x0303, g, rnd, b'', s.value.code, 0, None))
        for n in range(0, 33):
            yield ('ch_sid', sp.TlsHandshakeClientHello,
                   ref.client_hello(0x0303, g, rnd, bytes(range(n)), [0x002f], [0], None))
        pool = [0x002f, 0x1301, 0xeeee, 0x0a0a, 0x00ff, 0x5600]
        for n in range(1, 4):
            for combo in itertools.product(pool, repeat=n):
                yield ('ch_suites', sp.TlsHandshakeClientHello, ref.client_hello(0x0303, g, rnd, b'', list(combo), [0], None))
        for comp in ([0], [1], [0, 1], [0x40], [0, 0xee]):
            yield ('ch_comp', sp.TlsHandshakeClientHello, ref.client_hello(0x0303, g, rnd, b'', [0x002f], comp, None))
        for tg in (0, 1, 2 ** 31 - 1, 2 ** 31, 2 ** 32 - 1):
            yield ('ch_time', sp.TlsHandshakeClientHello, ref.client_hello(0x0303, tg, rnd, b'', [0x002f], [0], None))
    elif part == 'extensions':
        groups = [x.value.code for x in TlsNamedCurve]
        sigs = [x.value.code for x in TlsSignatureAndHashAlgorithm]
        bodies = []
        for gset in [[x] for x in groups] + [[groups[0], 0x0a0a], [0xeeee, groups[1], groups[2]]]:
            bodies.append((10, ref.ext_supported_groups(gset)))
        for pf in ([0], [1], [2], [0, 1, 2], [0xee], [0, 0x0b]):
            bodies.append((11, ref.ext_ec_point_formats(pf)))
        for sset in [[x] for x in sigs] + [[sigs[0], 0xeeee], [0x0a0a] + sigs[:2]]:
            bodies.append((13, ref.ext_signature_algorithms(sset)))
            bodies.append((50, ref.ext_signature_algorithms(sset)))
        for name in (b'a', b'example.com', b'xn--sland-ysa.example', b'a' * 63 + b'.b'):
            bodies.append((0, ref.ext_server_name(name)))
        for t in (b'', b'\x00', b'ticket' * 40):
            bodies.append((35, t))
        for rc in (b'', b'\x01', b'r' * 255):
            bodies.append((0xff01, ref.ext_renegotiation_info(rc)))
        for vs in ([0x0304], [0x0304, 0x0303], [0x7f1c, 0x0a0a, 0x0303], [0x7e02]):
            bodies.append((43, ref.ext_supported_versions_client(vs)))
        for ents in ([], [(29, b'k' * 32)], [(23, b'\x04' + b'k' * 64), (29, b'j' * 32)], [(0x0a0a, b'\x00')]):
            bodies.append((51, ref.ext_key_share_client(ents)))
        for m in ([0], [1], [0, 1], [0x0b, 1]):
            bodies.append((45, ref.ext_psk_key_exchange_modes(m)))
        for names in ([b'h2'], [b'http/1.1'], [b'h2', b'http/1.1'], [b'spdy/3.1', b'h2']):
            bodies.append((16, ref.ext_alpn(names)))
        # every registered member of every remaining code space, alone in its list (the statement quantifies over
        # every ALPN / NPN name, compression method, point format, PSK mode, certificate compression algorithm;
        # every named group also as a key share)
        from cryptodatahub.tls.algorithm import (TlsProtocolName, TlsNextProtocolName, TlsPskKeyExchangeMode,
                                                 TlsCertificateCompressionAlgorithm, TlsTokenBindingParamater)
        for m in TlsProtocolName:
            bodies.append((16, ref.ext_alpn([m.value.code.encode('ascii')])))
            bodies.append((16, ref.ext_alpn([b'h2', m.value.code.encode('ascii')])))
        for m in TlsECPointFormat:
            bodies.append((11, ref.ext_ec_point_formats([m.value.code])))
        for m in TlsPskKeyExchangeMode:
            bodies.append((45, ref.ext_psk_key_exchange_modes([m.value.code])))
        for m in TlsCertificateCompressionAlgorithm:
            bodies.append((27, ref.ext_compress_certificate([m.value.code])))
        for m in TlsTokenBindingParamater:
            bodies.append((24, ref.ext_token_binding(1, 0, [m.value.code])))
        for x in groups:
            bodies.append((51, ref.ext_key_share_client([(x, b'k' * 32)])))
        for n in (0, 1, 255, 256):
            bodies.append((21, ref.ext_padding(n)))
        for v in (64, 16384, 16385, 65535):
            bodies.append((28, ref.ext_record_size_limit(v)))
        for a in ([1], [2], [1, 2, 3], [0xeeee]):
            bodies.append((27, ref.ext_compress_certificate(a)))
        bodies.append((5, ref.ext_status_request([], b'')))
        bodies.append((5, ref.ext_status_request([b'rid'], b'ext')))
        bodies.append((5, ref.ext_status_request([b'a', b'b' * 300], b'')))
        for t in (22, 23, 18, 13172, 30032):
            bodies.append((t, b''))
        bodies.append((24, ref.ext_token_binding(1, 0, [0, 1, 2])))
        bodies.append((0xeeee, b'unknown'))
        bodies.append((0x0a0a, b''))
        bodies.append((0x0a0a, b'\x00'))
        for t, d in bodies:
            yield ('ext_client', ex.TlsExtensionsClient, ref.extensions_block([(t, d)]))
            yield ('ch_ext', sp.TlsHandshakeClientHello, ref.client_hello(0x0303, g, rnd, b'', [0x002f], [0], [(t, d)]))
        for (t1, d1), (t2, d2) in itertools.permutations(bodies[::7], 2):
            yield ('ch_ext_pair', sp.TlsHandshakeClientHello,
                   ref.client_hello(0x0303, g, rnd, b'', [0x002f], [0], [(t1, d1), (t2, d2)]))
        yield ('ch_ext_empty_block', sp.TlsHandshakeClientHello, ref.client_hello(0x0303, g, rnd, b'', [0x002f], [0], []))
        sbodies = [(0, b''), (5, b''), (11, ref.ext_ec_point_formats([0])), (16, ref.ext_alpn([b'h2'])), (22, b''), (23, b''),
                   (35, b''), (0xff01, ref.ext_renegotiation_info(b'')), (43, ref.ext_supported_versions_server(0x0304)),
                   (51, ref.ext_key_share_server(29, b'k' * 32)), (28, ref.ext_record_size_limit(16385)),
                   (13172, ref.ext_npn_server([b'h2', b'http/1.1'])), (0xeeee, b'x')]
        for t, d in sbodies:
            yield ('sh_ext', sp.TlsHandshakeServerHello, ref.server_hello(0x0303, g, rnd, b's' * 32, 0x002f, 0, [(t, d)]))
        from cryptodatahub.tls.algorithm import TlsNextProtocolName as _Npn, TlsProtocolName as _Alpn
        for m in _Npn:
            yield ('sh_ext', sp.TlsHandshakeServerHello,
                   ref.server_hello(0x0303, g, rnd, b's' * 32, 0x002f, 0, [(13172, ref.ext_npn_server([m.value.code.encode('ascii')]))]))
        for m in _Alpn:
            yield ('sh_ext', sp.TlsHandshakeServerHello,
                   ref.server_hello(0x0303, g, rnd, b's' * 32, 0x002f, 0, [(16, ref.ext_alpn([m.value.code.encode('ascii')]))]))
        for x in groups:
            yield ('sh_ext', sp.TlsHandshakeServerHello,
                   ref.server_hello(0x0303, g, rnd, b's' * 32, 0x1301, 0, [(51, ref.ext_key_share_server(x, b'k' * 32))]))
        for m in TlsCompressionMethod:
            yield ('ch_comp', sp.TlsHandshakeClientHello, ref.client_hello(0x0303, g, rnd, b'', [0x002f], [m.value.code], None))
            yield ('sh_comp', sp.TlsHandshakeServerHello, ref.server_hello(0x0303, g, rnd, b'', 0x002f, m.value.code, None))
        yield ('hrr', sp.TlsHandshakeHelloRetryRequest,
               ref.server_hello(0x0303, g, rnd, b's' * 32, 0x1301, 0, [(51, ref.ext_key_share_hrr(23)), (43, ref.ext_supported_versions_server(0x0304))], 6))
    elif part == 'other_messages':
        for chain in ([], [b'c'], [b'c' * 255, b'd' * 256], [b'c', b'd', b'e'], [b'x' * 65536]):
            if chain:
                yield ('certificate', sp.TlsHandshakeCertificate, ref.certificate(chain))
        for types in ([1], [1, 2, 64], [0x40]):
            for sa in (None, [0x0401], [0x0401, 0x0403]):
                for dns in ([], [b'dn'], [b'd' * 255, b'e' * 256]):
                    yield ('certificate_request', sp.TlsHandshakeCertificateRequest, ref.certificate_request(types, sa, dns))
        for resp in (b'r', b'r' * 256, b'r' * 70000):
            yield ('certificate_status', sp.TlsHandshakeCertificateStatus, ref.certificate_status(1, resp))
        yield ('server_hello_done', sp.TlsHandshakeServerHelloDone, ref.server_hello_done())
        for p in (b'', b'p', b'p' * 300):
            yield ('server_key_exchange', sp.TlsHandshakeServerKeyExchange, ref.server_key_exchange(p))
        for lvl in (1, 2):
            for d in sp.TlsAlertDescription:
                yield ('alert', sp.TlsAlertMessage, ref.alert(lvl, int(d)))
        yield ('ccs', sp.TlsChangeCipherSpecMessage, ref.change_cipher_spec())
        for ct in sp.TlsContentType:
            for v in (0x0300, 0x0301, 0x0303, 0x0304):
                for frag in (b'', b'f', b'f' * 256, b'f' * 16384):
                    yield ('record', rec.TlsRecord, ref.record(int(ct), v, frag))
        from cryptodatahub.tls.algorithm import SslCipherKind
        kinds = [k.value.code for k in SslCipherKind]
        for ks in ([], kinds[:1], kinds, kinds[::-1]):
            for sid in (b'', b's' * 16):
                for ch in (b'c' * 16, b'c' * 32):
                    body = ref.ssl2_client_hello(ks, sid, ch)
                    for pad in (0, 1, 7):
                        yield ('ssl2_client_hello', rec.SslRecord, ref.ssl2_record(body, pad, pad > 0))
                    yield ('ssl2_client_hello_3byte_nopad', rec.SslRecord, ref.ssl2_record(body, 0, True))
            for cert in (b'', b'c' * 300):
                body = ref.ssl2_server_hello(False, cert, ks, b'i' * 16)
                yield ('ssl2_server_hello', rec.SslRecord, ref.ssl2_record(body))
        for e in sp.SslErrorType:
            yield ('ssl2_error', rec.SslRecord, ref.ssl2_record(ref.ssl2_error(int(e))))


def _wire_worker(part):
    acc = core.Acc()
    for label, cls, wire in spec_wire_forms(part):
        acc.counters['transitions'] = acc.counters.get('transitions', 0) + 2
        w = {'kind': 'wire', 'label': label, 'cls': classes.qualname(cls), 'wire': wire[:400], 'wire_len': len(wire)}
        try:
            o = cls.parse_exact_size(wire)
        except Exception as e:  # noqa
            acc.violation('spec_form_rejected:%s:%s' % (label, core.ename(e)),
                          'a specification-conformant %s (%s) is rejected: %s' % (cls.__name__, label, str(e)[:80]), w)
            continue
        try:
            back = reference_bytes(o)
        except NoBridge:
            acc.count('no_bridge')
            continue
        except Exception as e:  # noqa
            acc.violation('spec_form_fields:%s:%s' % (label, core.ename(e)), 'fields of the parsed object cannot be '
                          'read back', w)
            continue
        exp = wire
        if label.startswith('ssl2') and label != 'ssl2_error' and wire[0] & 0x80 == 0:
            # 3-byte header / padded records re-encode in the 2-byte form: compare the message part
            pad = wire[2]
            exp = ref.ssl2_record(wire[3:len(wire) - pad])
        if label == 'ch_ext_empty_block':
            # an empty extensions block carries no field value; the canonical form omits it
            d = ref.read_client_hello(wire)
            exp = ref.client_hello(d['version'], 1577836800, bytes(range(28)), d['session_id'], d['suites'],
                                   d['compressions'], None)
        if label == 'ch_suites':
            # the position of SCSV markers is not part of the object: compare the field values instead
            d = ref.read_client_hello(wire)
            real = [s for s in d['suites'] if s not in (0x00ff, 0x5600)]
            got = [code(x) for x in o.cipher_suites]
            if got != real or o.fallback_scsv != (0x5600 in d['suites']) or \
                    o.empty_renegotiation_info_scsv != (0x00ff in d['suites']):
                acc.violation('spec_form_fields:ch_suites', 'suites %s parsed as %s fallback=%s reneg=%s'
                              % ([hex(s) for s in d['suites']], [hex(s) for s in got], o.fallback_scsv,
                                 o.empty_renegotiation_info_scsv), w)
            acc.state(core.h64('wire', wire))
            continue
        if back != exp:
            i = next((k for k in range(min(len(back), len(exp))) if back[k] != exp[k]), min(len(back), len(exp)))
            acc.violation('spec_form_fields:%s' % label, 'fields recovered from a conformant %s differ from the encoded '
                          'ones (re-encoding differs at offset %d)' % (cls.__name__, i), w)
        acc.state(core.h64('wire', wire))
    acc.sample({'kind': 'wire', 'part': part}, 1)
    return acc.result()


def run(ctx):
    so = objects.seed_objects()
    items = []
    for cls in tls_classes():
        for i in range(len(so.get(cls, []))):
            items.append((classes.qualname(cls), i, 1 if ctx.quick else 2))
    ctx.pmap(_object_worker, items)
    ctx.pmap(_wire_worker, ['client_hello_versions_suites', 'extensions', 'other_messages'])
    ctx.assumptions += [
        'reference encoder written from RFC 5246/6066/8422/8446/... ; vector prefix width = bytes needed for the RFC '
        'ceiling; anchored on the suite vectors by the self-test',
        'SCSV suites are appended after the ordinary suites (fallback first) - the RFCs leave their position free',
        'ServerKeyExchange is opaque in the library and is compared as opaque',
    ]
    return ctx.finish(rule='object side: every TLS object within %d deviations of the seeds, compose == RFC layout and '
                           'parse(RFC layout) recovers the fields; wire side: every version, every cipher suite, all '
                           'suite lists of length <= 3 over 6 codes (known, unknown, GREASE, both SCSVs), session ids '
                           '0..32, ~150 extension bodies alone and in ordered pairs, certificate chains, certificate '
                           'requests, alerts, records, SSL 2.0 records with 2/3-byte headers and padding'
                           % (1 if ctx.quick else 2))


def replay(ctx, w):
    acc = core.Acc()
    if w['kind'] == 'wire':
        for part in ('client_hello_versions_suites', 'extensions', 'other_messages'):
            res = _wire_worker(part)
            for v in res[1]:
                if v['witness'].get('label') == w.get('label'):
                    return v
        return None
    cls = classes.class_by_name(w['cls'])
    seed = objects.seed_objects()[cls][w['seed']]
    for path, o, stats in objects.neighbourhood(seed, len(w['path']), False, None):
        if list(path) == w['path']:
            check_object(acc, cls, o, w)
            break
    vs = list(acc.violations.values())
    return vs[0] if vs else None
