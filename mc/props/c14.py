"""C14 - JSON and Markdown output is always well-formed, deterministic and faithful.

Objects: every object within one deviation of every seed object of every class (Serializable or not: non
Serializable ones are dumped through json.dumps, which the library routes through its encoder).
Configurations: PYTHONHASHSEED values (one subprocess each), every insertion order of small set/dict fields,
every ordered pair of a representative panel serialised in one process vs. a fresh process.
"""
import copy
import hashlib
import itertools
import json
import os
import subprocess
import sys

from mc import canon, classes, core, objects


def render(o):
    """-> (json text or ('raised', type)), (markdown text or ('raised', type))"""
    from cryptoparser.common.base import Serializable
    try:
        j = o.as_json() if isinstance(o, Serializable) else json.dumps(o)
    except core.Timeout:
        raise
    except BaseException as e:  # noqa
        j = ('raised', core.ename(e), str(e)[:100])
    try:
        if isinstance(o, Serializable):
            m = o.as_markdown()
        else:
            m = Serializable._markdown_result(o)[1]  # noqa - what a containing object would render
    except core.Timeout:
        raise
    except BaseException as e:  # noqa
        m = ('raised', core.ename(e), str(e)[:100])
    return j, m


def definer(o, name):
    for k in type(o).__mro__:
        if name in k.__dict__:
            return k.__name__
    return type(o).__name__


def check_object(acc, o, wit):
    from cryptoparser.common.base import Serializable
    cname = type(o).__name__
    if hasattr(o, 'compose'):
        try:
            o.compose()
        except classes.documented_errors():
            acc.count('not_composable_skipped')     # outside the wire domain (e.g. a timestamp before the epoch)
            return None, None
        except Exception:  # noqa (C01)
            pass
    acc.counters['transitions'] = acc.counters.get('transitions', 0) + 2
    j, m = render(o)
    if isinstance(j, tuple):
        acc.violation('json_raises:%s:%s' % (cname if j[1] != 'TypeError' else _json_culprit(o), j[1]),
                      'JSON serialisation of a %s raises %s: %s' % (cname, j[1], j[2]), wit)
    else:
        try:
            json.loads(j)
        except ValueError as e:
            acc.violation('json_malformed:%s' % cname, 'as_json() of a %s is not valid JSON: %s' % (cname, str(e)[:60]),
                          wit)
    if isinstance(m, tuple):
        acc.violation('markdown_raises:%s:%s' % (cname, m[1]), 'Markdown serialisation of a %s raises %s: %s'
                      % (cname, m[1], m[2]), wit)
    elif not isinstance(m, str):
        acc.violation('markdown_type:%s' % cname, 'as_markdown() returns %s' % type(m).__name__, wit)
    # equal objects -> identical output: deepcopy, and the parse-compose round trip when it is equal (C01)
    try:
        twin = copy.deepcopy(o)
    except Exception:  # noqa
        twin = None
    if twin is not None:
        acc.counters['transitions'] = acc.counters.get('transitions', 0) + 2
        j2, m2 = render(twin)
        if j2 != j or m2 != m:
            acc.violation('copy_differs:%s:%s' % (cname, 'json' if j2 != j else 'markdown'),
                          'a deep copy of a %s serialises differently' % cname, wit)
    if hasattr(o, 'compose') and hasattr(type(o), 'parse_exact_size'):
        try:
            back = type(o).parse_exact_size(bytes(o.compose()))
        except Exception:  # noqa
            back = None
        same = back is not None and canon.dump(back, eq=True, tz=True) == canon.dump(o, eq=True, tz=True)
        if back is not None and not same:
            # the property speaks of *equal* objects: a dict and an OrderedDict holding the same items are equal for the
            # library's == (the canonical dump keeps them apart), so such a round trip is a twin as well
            try:
                same = (canon.loosen(canon.dump(back, eq=True, tz=True)) == canon.loosen(canon.dump(o, eq=True, tz=True))
                        and bool(back == o) and bytes(back.compose()) == bytes(o.compose()))
            except Exception:  # noqa
                same = False
        if same:
            acc.counters['transitions'] = acc.counters.get('transitions', 0) + 2
            j3, m3 = render(back)
            if j3 != j or m3 != m:
                acc.violation('roundtrip_differs:%s:%s' % (cname, 'json' if j3 != j else 'markdown'),
                              'parse(compose(x)) equals x but serialises differently (%s)' % cname, wit)
    # insertion-order twins of small set / dict fields
    for attr_name, kw in (objects._init_fields(o) or []):
        try:
            v = getattr(o, attr_name)
        except AttributeError:
            continue
        if isinstance(v, (set, frozenset, dict)) and 2 <= len(v) <= 4:
            items = list(v.items()) if isinstance(v, dict) else list(v)
            t = type(v)
            for perm in itertools.permutations(items):
                try:
                    o2 = objects.rebuild(o, attr_name, t(perm))
                except Exception:  # noqa
                    break
                if canon.dump(o2, eq=True, tz=True) != canon.dump(o, eq=True, tz=True):
                    continue    # ordered container: a different value, not a twin
                acc.counters['transitions'] = acc.counters.get('transitions', 0) + 2
                j4, m4 = render(o2)
                if j4 != j or m4 != m:
                    acc.violation('insertion_order:%s:%s:%s' % (cname, attr_name, 'json' if j4 != j else 'markdown'),
                                  'equal %s objects built with a different insertion order of %s serialise differently'
                                  % (cname, attr_name), dict(wit, field=attr_name))
                    break
            if isinstance(v, dict):
                # container-type twins: the same items in a dict and in an OrderedDict are equal for == (whatever
                # their order); when the class accepts both, both must serialise identically
                import collections
                for perm in itertools.permutations(items):
                    for t2 in (dict, collections.OrderedDict):
                        if t2 is t and list(perm) == items:
                            continue
                        try:
                            o2 = objects.rebuild(o, attr_name, t2(perm))
                            equal = bool(o2 == o)
                        except Exception:  # noqa - the class refuses this container type
                            continue
                        if not equal:
                            continue
                        acc.counters['transitions'] = acc.counters.get('transitions', 0) + 2
                        j5, m5 = render(o2)
                        if j5 != j or m5 != m:
                            acc.violation('container_type:%s:%s:%s' % (cname, attr_name, 'json' if j5 != j else 'markdown'),
                                          'equal %s objects holding %s as %s and as %s serialise differently'
                                          % (cname, attr_name, t.__name__, t2.__name__), dict(wit, field=attr_name))
                            break
                    else:
                        continue
                    break
    return j, m


def _json_culprit(o):
    return type(o).__name__


def object_list(depth, part=None, parts=None):
    """Deterministic list of (label, object)."""
    so = objects.seed_objects()
    out = []
    for cls in classes.parsable_classes():
        qn = classes.qualname(cls)
        for i, seed in enumerate(so.get(cls, [])):
            if part is not None and (hash_str(qn) + i) % parts != part:
                continue
            import enum
            d = 0 if isinstance(seed, enum.Enum) else depth
            for path, o, stats in objects.neighbourhood(seed, d, False, 400):
                out.append(('%s#%d%s' % (qn, i, '/' + '/'.join(path) if path else ''), o, qn, i, path))
    return out


def hash_str(s):
    return int(hashlib.md5(s.encode()).hexdigest()[:8], 16)


def _object_worker(args):
    part, parts, depth = args
    acc = core.Acc()
    with core.watchdog(2400):
        for label, o, qn, i, path in object_list(depth, part, parts):
            check_object(acc, o, {'part': 'object', 'cls': qn, 'seed': i, 'path': list(path)})
            acc.state(core.h64(label))
    if part == 0:
        acc.sample({'part': 'object', 'checks': 'json.loads(as_json), as_markdown is str, copy / round trip / '
                    'insertion-order twins serialise identically'}, 1)
    return acc.result()


# ---- hash seeds: one subprocess per PYTHONHASHSEED -----------------------------------------------------------
def ordered(lst, order):
    """Deterministic orderings of the object list: forward, reverse, rotations, interleaved by class hash."""
    if order == 'forward':
        return lst
    if order == 'reverse':
        return lst[::-1]
    if order.startswith('rot'):
        k = int(order[3:]) * len(lst) // 8
        return lst[k:] + lst[:k]
    if order == 'byhash':
        return sorted(lst, key=lambda t: hash_str(t[0]))
    if order == 'byhashrev':
        return sorted(lst, key=lambda t: hash_str(t[0]), reverse=True)
    return lst


def digest_main():
    """Child process: prints one line per object: label <TAB> json digest <TAB> markdown digest."""
    core.import_repo()
    depth = int(sys.argv[2])
    order = sys.argv[3] if len(sys.argv) > 3 else 'forward'
    for label, o, qn, i, path in ordered(object_list(depth), order):
        j, m = render(o)
        dj = hashlib.md5(repr(j).encode()).hexdigest()[:12]
        dm = hashlib.md5(repr(m).encode()).hexdigest()[:12]
        sys.stdout.write('%s\t%s\t%s\n' % (label, dj, dm))


def _hashseed_worker(seed_value):
    order = 'forward'
    if isinstance(seed_value, tuple):
        seed_value, order = seed_value
    env = dict(os.environ, PYTHONHASHSEED=str(seed_value), TZ='UTC')
    out = subprocess.run([sys.executable, '-m', 'mc.props.c14', '--digest', '1', order], cwd=core.VERIF, env=env,
                         stdout=subprocess.PIPE, stderr=subprocess.PIPE, timeout=3000)
    acc = core.Acc()
    if out.returncode != 0:
        raise RuntimeError('digest child failed: %s' % out.stderr.decode()[-400:])
    table = {}
    for line in out.stdout.decode().splitlines():
        label, dj, dm = line.split('\t')
        table[label] = (dj, dm)
    acc.counters['transitions'] = 2 * len(table)
    acc.state(core.h64('hashseed', seed_value))
    return acc.counters, [], [{'part': 'hashseed', 'PYTHONHASHSEED': seed_value, 'order': order, 'objects': len(table)}], \
        {core.h64('hs', seed_value, order)}, table


def hashseed_tables(ctx, seeds):
    import multiprocessing
    pool = multiprocessing.get_context('fork').Pool(min(len(seeds), core.NPROC))
    try:
        res = pool.map(_hashseed_worker, seeds)
    finally:
        pool.terminate()
        pool.join()
    tables = {}
    for s, r in zip(seeds, res):
        ctx.merge_counts(r[0])
        for smp in r[2]:
            ctx.sample(smp)
        ctx.state_hashes.update(r[3])
        tables[s] = r[4]
    base = tables[seeds[0]]
    for s in seeds[1:]:
        t = tables[s]
        if set(t) != set(base):
            ctx.violation({'signature': 'hashseed:object_list_differs', 'what': 'the set of constructible objects '
                           'depends on PYTHONHASHSEED', 'witness': {'part': 'hashseed', 'seeds': [seeds[0], s]}})
            continue
        for label in base:
            if t[label] != base[label]:
                qn = label.split('#')[0]
                fmt = 'json' if t[label][0] != base[label][0] else 'markdown'
                ctx.violation({'signature': 'hashseed:%s:%s' % (qn.rsplit('.', 1)[1], fmt),
                               'what': '%s output of %s differs between PYTHONHASHSEED=%d and %d'
                                       % (fmt, label, seeds[0], s),
                               'witness': {'part': 'hashseed', 'label': label, 'seeds': [seeds[0], s]}})


# ---- histories: B after A vs. B in a fresh process -----------------------------------------------------------
def panel():
    """One representative object per module family / container kind (fixed, deterministic)."""
    so = objects.seed_objects()
    out = []
    seen = set()
    for cls in classes.parsable_classes():
        objs = so.get(cls, [])
        if not objs:
            continue
        key = (cls.__module__, [b.__name__ for b in cls.__mro__ if b.__module__.endswith(('common.base', 'common.field'))][:1].__repr__())
        if key in seen:
            continue
        seen.add(key)
        out.append((classes.qualname(cls), objs[0]))
    return out[:48]


def _pair_worker(args):
    ai, bi = args
    acc = core.Acc()
    p = panel()
    if ai is not None:
        render(p[ai][1])
    j, m = render(p[bi][1])
    acc.counters['transitions'] = 2
    return acc.counters, [], [], set(), (ai, bi, hashlib.md5(repr((j, m)).encode()).hexdigest())


def order_tables(ctx, orders):
    """The whole object list serialised in one process per ordering; per-object output must not depend on what was
    serialised before it (any first-writer-wins or last-writer-wins process state shows up between two orderings)."""
    import multiprocessing
    pool = multiprocessing.get_context('fork').Pool(min(len(orders), core.NPROC))
    try:
        res = pool.map(_hashseed_worker, [(0, o) for o in orders])
    finally:
        pool.terminate()
        pool.join()
    tables = {}
    for o, r in zip(orders, res):
        ctx.merge_counts(r[0])
        for smp in r[2]:
            ctx.sample(smp)
        ctx.state_hashes.update(r[3])
        tables[o] = r[4]
    base = tables[orders[0]]
    for o in orders[1:]:
        t = tables[o]
        for label in base:
            if label in t and t[label] != base[label]:
                qn = label.split('#')[0]
                fmt = 'json' if t[label][0] != base[label][0] else 'markdown'
                ctx.violation({'signature': 'history_order:%s:%s' % (qn.rsplit('.', 1)[1], fmt),
                               'what': '%s output of %s depends on which objects were serialised before it (order %s vs %s)'
                                       % (fmt, label, orders[0], o),
                               'witness': {'part': 'order', 'label': label, 'orders': [orders[0], o]}})


def histories(ctx, triples):
    import multiprocessing
    p = panel()
    n = len(p)
    tasks = [(None, b) for b in range(n)] + [(a, b) for a in range(n) for b in range(n)]
    pool = multiprocessing.get_context('fork').Pool(core.NPROC, maxtasksperchild=1)
    try:
        res = pool.map(_pair_worker, tasks, chunksize=1)
    finally:
        pool.terminate()
        pool.join()
    base = {}
    for r in res:
        ctx.merge_counts(r[0])
        ai, bi, dg = r[4]
        if ai is None:
            base[bi] = dg
    for r in res:
        ai, bi, dg = r[4]
        if ai is not None and dg != base[bi]:
            ctx.violation({'signature': 'history:%s_after_%s' % (p[bi][0].rsplit('.', 1)[1], p[ai][0].rsplit('.', 1)[1]),
                           'what': 'serialising %s after %s gives a different output than in a fresh process'
                                   % (p[bi][0], p[ai][0]),
                           'witness': {'part': 'history', 'first': p[ai][0], 'then': p[bi][0]}})
        ctx.state_hashes.add(core.h64('pair', ai, bi))
    ctx.sample({'part': 'history', 'panel': [q for q, _ in p][:6], 'pairs': n * n})


def _edit_worker(args):
    """Serialise, edit in place, serialise again: the output must be that of the equal object built by construction
    and never serialised before (no rendering survives an edit)."""
    qn, idx, wide = args
    from mc.props import c13
    acc = core.Acc()
    cls = classes.class_by_name(qn)
    objs = objects.seed_objects().get(cls, [])
    if idx >= len(objs):
        return acc.result()
    with core.watchdog(1500):
        n = c13.check_edit_histories(acc, objs[idx], {'part': 'edit', 'cls': qn, 'seed': idx},
                                     names=('as_json', 'as_markdown', '_asdict'), wide=wide,
                                     sigprefix='stale_serialisation')
    acc.count('edit_histories', n)
    acc.state(core.h64('edit', qn, idx))
    return acc.result()


def run(ctx):
    parts = 64
    ctx.pmap(_object_worker, [(p, parts, 1) for p in range(parts)])
    seeds = [0, 1, 2, 3] if ctx.quick else list(range(16))
    hashseed_tables(ctx, seeds)
    orders = ['forward', 'reverse', 'rot3', 'byhash'] if ctx.quick else \
        ['forward', 'reverse', 'rot1', 'rot2', 'rot3', 'rot5', 'rot6', 'byhash', 'byhashrev']
    order_tables(ctx, orders)
    histories(ctx, not ctx.quick)
    so = objects.seed_objects()
    eitems = []
    for cls in classes.parsable_classes():
        for i in range(min(len(so.get(cls, [])), 3 if ctx.quick else 10 ** 6)):
            eitems.append((classes.qualname(cls), i, not ctx.quick))
    ctx.pmap(_edit_worker, eitems)
    ctx.assumptions += ['non-Serializable parsable classes are rendered the way a containing object renders them '
                        '(json.dumps through the library encoder, Serializable._markdown_result)',
                        'hash-seed independence is checked by digest comparison of one subprocess per seed over '
                        'the same deterministic object list']
    return ctx.finish(rule='every object within one deviation of every seed object of every class: json.loads, '
                           'markdown is text, deep copy / equal round trip / every insertion order of 2-4 element '
                           'set and dict fields serialise identically; PYTHONHASHSEED in %s; the whole object list serialised in 4 (thorough 9) different orders, one process each; every ordered pair of a '
                           '%d-object panel vs. a fresh process; serialise / edit in place / serialise histories for the first 3 '
                           '(thorough: all) seed objects of every class' % (seeds, len(panel())))


def replay(ctx, w):
    acc = core.Acc()
    if w.get('part') == 'edit':
        for wide in (True, False):
            res = _edit_worker((w['cls'], w['seed'], wide))
            for v in res[1]:
                if v['witness'].get('tag') == w.get('tag'):
                    return v
        return None
    if w.get('part') == 'object':
        cls = classes.class_by_name(w['cls'])
        seed = objects.seed_objects()[cls][w['seed']]
        for path, o, stats in objects.neighbourhood(seed, len(w['path']), False, None):
            if list(path) == w['path']:
                check_object(acc, o, w)
                break
        vs = list(acc.violations.values())
        return vs[0] if vs else None
    if w.get('part') == 'order':
        c2 = core.Ctx('C14', 'quick', 0, replay_only=True)
        order_tables(c2, w['orders'])
        for sig, (v, n) in c2.violations.items():
            return v
        return None
    if w.get('part') == 'hashseed':
        c2 = core.Ctx('C14', 'quick', 0, replay_only=True)
        hashseed_tables(c2, w['seeds'])
        for sig, (v, n) in c2.violations.items():
            return v
        return None
    c2 = core.Ctx('C14', 'quick', 0, replay_only=True)
    histories(c2, False)
    for sig, (v, n) in c2.violations.items():
        if v['witness'].get('first') == w.get('first') and v['witness'].get('then') == w.get('then'):
            return v
    return None


if __name__ == '__main__':
    if len(sys.argv) > 1 and sys.argv[1] == '--digest':
        digest_main()
