"""C04 - incremental reads guided by the missing-byte count reassemble the stream.

Explicit-state BFS over the reader/environment system of DESIGN §5 C04, on the real parse_mutable:
state = (records emitted, bytes delivered); the environment chooses any delivery d' with d+k <= d' <= |S|.
Second system: TLS handshake messages fragmented over records (two-level reader).
"""
import itertools

from mc import canon, classes, core, layers


class Reader(object):
    """One layer: real parser + cache of outcomes by buffer content (parsing is deterministic in the buffer)."""

    def __init__(self, cls, acc):
        self.cls = cls
        self.acc = acc
        self.cache = {}
        from cryptoparser.common.exception import NotEnoughData
        self.NED = NotEnoughData

    def parse(self, buf):
        r = self.cache.get(buf)
        if r is not None:
            return r
        self.acc.counters['real_parses'] = self.acc.counters.get('real_parses', 0) + 1
        ba = bytearray(buf)
        try:
            obj = self.cls.parse_mutable(ba)
            r = ('ok', len(buf) - len(ba), canon.dump(obj, eq=True))
        except self.NED as e:
            r = ('ned', e.bytes_needed, None)
        except core.Timeout:
            raise
        except BaseException as e:  # noqa
            r = ('exc', core.ename(e), None)
        self.cache[buf] = r
        return r


def explore_stream(layer, reader, records, expected, acc):
    S = b''.join(records)
    bounds = [0]
    for r in records:
        bounds.append(bounds[-1] + len(r))
    total = len(S)
    m = len(records)
    seen = set()
    frontier = [(0, d) for d in range(total + 1)]
    seen.update(frontier)
    reached_terminal = False
    wit = {'layer': layer, 'records': [r for r in records]}

    def viol(clause, what, c, d):
        w = dict(wit)
        w.update({'c': c, 'd': d, 'clause': clause})
        acc.violation('%s:%s' % (layer, clause), what, w)

    while frontier:
        i, d = frontier.pop()
        acc.counters['states'] = acc.counters.get('states', 0) + 1
        if i == m:
            if d == total:
                reached_terminal = True
            continue
        c = bounds[i]
        end = bounds[i + 1]
        kind, a, b = reader.parse(S[c:d])
        acc.counters['transitions'] = acc.counters.get('transitions', 0) + 1
        if kind == 'ok':
            n = a
            if d < end:
                viol('premature_accept', 'a proper prefix (%d of %d bytes) of a record was accepted (n=%d)'
                     % (d - c, end - c, n), c, d)
            elif n != end - c:
                viol('wrong_length', 'complete record parsed with n=%d, record is %d bytes' % (n, end - c), c, d)
            elif b != expected[i]:
                viol('wrong_object', 'record parsed to a different object when followed by %d more bytes'
                     % (d - end), c, d)
            else:
                nxt = (i + 1, d)
                if nxt not in seen:
                    seen.add(nxt)
                    frontier.append(nxt)
        elif kind == 'ned':
            k = a
            if not isinstance(k, int) or k < 1:
                viol('bytes_needed_lt_1', 'NotEnoughData(bytes_needed=%r)' % (k,), c, d)
            elif d >= end:
                viol('complete_record_rejected', 'complete record (+%d bytes) rejected with NotEnoughData(%d)'
                     % (d - end, k), c, d)
            elif d + k > end:
                viol('deadlock_overask', 'reader asks for %d bytes but only %d remain in the record in progress'
                     % (k, end - d), c, d)
            else:
                for d2 in range(d + k, total + 1):
                    acc.counters['transitions'] = acc.counters.get('transitions', 0) + 1
                    nxt = (i, d2)
                    if nxt not in seen:
                        seen.add(nxt)
                        frontier.append(nxt)
        else:
            where = 'prefix' if d < end else 'complete'
            viol('%s_raises:%s' % (where, a), '%s of a valid record raises %s instead of %s'
                 % (where, a, 'NotEnoughData' if d < end else 'returning'), c, d)
    if not reached_terminal and not acc.violations:
        viol('no_terminal', 'no path reaches the state where all records are emitted', 0, 0)
    for st in seen:
        acc.state(core.h64(layer, S, st))


def streams_for(recs, extra, depth):
    seqs = []
    for n in range(1, depth + 1):
        for combo in itertools.product(range(len(recs)), repeat=n):
            seqs.append([recs[j] for j in combo])
    for e in extra:
        seqs.append([e])
        if recs:
            seqs.append([e, recs[0]])
            seqs.append([recs[-1], e])
    return seqs


def _layer_worker(args):
    name, depth, part, parts = args
    acc = core.Acc()
    for lname, cls, recs, extra in layers.layers():
        if lname != name:
            continue
        reader = Reader(cls, acc)
        exp_cache = {}
        seqs = streams_for(recs, extra, depth)
        with core.watchdog(1500):
            for si, seq in enumerate(seqs):
                if si % parts != part:
                    continue
                expected = []
                for r in seq:
                    if r not in exp_cache:
                        exp_cache[r] = canon.dump(cls.parse_exact_size(r), eq=True)
                    expected.append(exp_cache[r])
                explore_stream(lname, reader, seq, expected, acc)
                acc.count('streams')
                if si == part:
                    acc.sample({'layer': lname, 'stream_of_records': [r for r in seq],
                                'explored': 'all (emitted, delivered) states'}, 1)
    return acc.result()


# ---- records at the size boundaries of their length fields (sparse delivery points) ---------------------------------
def big_records():
    """[(layer, class, label, record bytes)] - composed records whose length sits at 2^14 / 2^15 / 2^16 boundaries."""
    from cryptodatahub.tls.algorithm import SslCipherKind
    from cryptodatahub.tls.version import TlsVersion
    from cryptoparser.tls.version import TlsProtocolVersion
    from cryptoparser.tls.record import TlsRecord, SslRecord
    from cryptoparser.tls import subprotocol as sp
    from cryptoparser.ssh import record as sr, subprotocol as ss
    out = []
    kinds = list(SslCipherKind)[:1]
    for body in (16383, 16384, 16385, 20000, 32767):
        cert = body - (1 + 1 + 1 + 2 + 2 + 2 + 2 + 3 * len(kinds) + 16)
        try:
            rec = bytes(SslRecord(sp.SslHandshakeServerHello(b'c' * cert, kinds, b'\x01' * 16)).compose())
        except Exception:  # noqa
            continue
        out.append(('ssl2_record', SslRecord, 'ssl2_body_%d' % (len(rec) - 2), rec))
    v12 = TlsProtocolVersion(TlsVersion.TLS1_2)
    for n in (16383, 16384):
        out.append(('tls_record', TlsRecord, 'tls_fragment_%d' % n,
                    bytes(TlsRecord(b'a' * n, v12, sp.TlsContentType.APPLICATION_DATA).compose())))
    # the three header fields together: every content type x {TLS 1.0, 1.2, 1.3} x lengths up to the TLS 1.3
    # ciphertext ceiling 2^14 + 256 (RFC 8446 s5.2); whatever compose() emits, the parser must take back
    for vname in ('TLS1', 'TLS1_2', 'TLS1_3'):
        ver = TlsProtocolVersion(getattr(TlsVersion, vname))
        for ct in sp.TlsContentType:
            for n in (16385, 16500, 16640):
                try:
                    out.append(('tls_record', TlsRecord, 'tls_%s_%s_%d' % (vname, ct.name.lower(), n),
                                bytes(TlsRecord(b'a' * n, ver, ct).compose())))
                except Exception:  # noqa - not composable: nothing to read back
                    pass
    for n in (32768, 34000):
        out.append(('ssh_init', sr.SshRecordInit, 'ssh_payload_%d' % n, bytes(sr.SshRecordInit(
            ss.SshDisconnectMessage(ss.SshReasonCode.BY_APPLICATION, 'x' * n, '')).compose())))
    # handshake messages longer than one record (3-octet length; the message necessarily spans records): a
    # Certificate message with one opaque certificate, payload around 2^14, 2^15, 2^16 and in between
    for payload in (16383, 16384, 16385, 22116, 32768, 65536, 70001):
        cert = payload - 6
        msg = (b'\x0b' + payload.to_bytes(3, 'big') + (cert + 3).to_bytes(3, 'big') + cert.to_bytes(3, 'big') +
               bytes(bytearray((k * 7 + 1) & 0xff for k in range(cert))))
        out.append(('handshake_message', sp.TlsHandshakeMessageVariant, 'handshake_payload_%d' % payload, msg))
    return out


def _big_worker(i):
    """One big record followed by a small one of its layer; delivery points: 0..8, around every multiple of 2^14
    and around the record end, the last 4 bytes, every 1021st byte, and the whole stream - each judged by the per-state clauses of the BFS
    (every state (0, d) is initial there, so no closure is needed for these clauses)."""
    acc = core.Acc()
    layer, cls, label, rec = big_records()[i]
    small = None
    for lname, lcls, recs, extra in layers.layers():
        if lname == layer:
            small = min(recs, key=len)
    if layer == 'handshake_message':
        small = min((b for _, b in layers.handshake_messages()), key=len)
    follow = small or b''
    S = rec + follow
    end = len(rec)
    reader = Reader(cls, acc)
    try:
        expected = canon.dump(cls.parse_exact_size(rec), eq=True)
    except Exception as e:  # noqa
        acc.violation('%s:big:complete_raises:%s' % (layer, core.ename(e)), 'the composed record %s is rejected by '
                      'its own parser' % label, {'layer': layer, 'big': label, 'clause': 'complete_raises'})
        return acc.result()
    points = set(range(0, 9)) | {end - k for k in range(0, 5)} | {end + k for k in range(1, 4)} | {len(S)}
    for mult in range(1, end // 16384 + 2):
        points |= {mult * 16384 + k for k in range(-3, 10)}
    points |= set(range(0, end, 1021))
    for d in sorted(p for p in points if 0 <= p <= len(S)):
        kind, a, b = reader.parse(S[:d])
        acc.counters['transitions'] = acc.counters.get('transitions', 0) + 1
        acc.counters['states'] = acc.counters.get('states', 0) + 1
        acc.state(core.h64('big', label, d))
        w = {'layer': layer, 'big': label, 'd': d, 'record_len': end}
        if kind == 'ok':
            if d < end:
                acc.violation('%s:big:premature_accept' % layer, 'a proper prefix (%d of %d bytes) of %s was accepted'
                              % (d, end, label), w)
            elif a != end:
                acc.violation('%s:big:wrong_length' % layer, '%s parsed with n=%d, record is %d bytes' % (label, a, end), w)
            elif b != expected:
                acc.violation('%s:big:wrong_object' % layer, '%s parses differently when followed by %d more bytes'
                              % (label, d - end), w)
        elif kind == 'ned':
            if not isinstance(a, int) or a < 1:
                acc.violation('%s:big:bytes_needed_lt_1' % layer, 'NotEnoughData(bytes_needed=%r)' % (a,), w)
            elif d >= end:
                acc.violation('%s:big:complete_record_rejected' % layer, 'complete %s (+%d bytes) rejected with '
                              'NotEnoughData(%d)' % (label, d - end, a), w)
            elif d + a > end:
                acc.violation('%s:big:deadlock_overask' % layer, 'reader asks for %d bytes, %d remain in %s'
                              % (a, end - d, label), w)
        else:
            acc.violation('%s:big:%s_raises:%s' % (layer, 'prefix' if d < end else 'complete', a),
                          '%s of %s raises %s' % ('a prefix' if d < end else 'the complete record', label, a), w)
    acc.sample({'layer': layer, 'big_record': label, 'bytes': end, 'delivery_points': len(points)}, 1)
    return acc.result()


# ---- handshake messages fragmented over records -----------------------------------------------------------
def _handshake_worker(args):
    """Two-level reader: record reader as above, then TlsHandshakeMessageVariant.parse_mutable on the
    reassembly buffer; on NotEnoughData the next record fragment is appended."""
    combo, max_cuts = args
    acc = core.Acc()
    from cryptodatahub.tls.version import TlsVersion
    from cryptoparser.tls.version import TlsProtocolVersion
    from cryptoparser.tls.record import TlsRecord
    from cryptoparser.tls.subprotocol import TlsHandshakeMessageVariant, TlsContentType
    from cryptoparser.common.exception import NotEnoughData
    msgs = layers.handshake_messages()
    seq = [msgs[j] for j in combo]
    H = b''.join(b for _, b in seq)
    bounds = [0]
    for _, b in seq:
        bounds.append(bounds[-1] + len(b))
    expected = [canon.dump(TlsHandshakeMessageVariant.parse_exact_size(b), eq=True) for _, b in seq]
    version = TlsProtocolVersion(TlsVersion.TLS1_2)
    hreader = Reader(TlsHandshakeMessageVariant, acc)
    rreader = Reader(TlsRecord, acc)
    total = len(H)
    positions = range(1, total)
    # cut positions: every byte of the first 6 and around every message boundary +-5, plus every 16th
    interesting = set()
    for b in bounds:
        for off in range(-5, 6):
            if 0 < b + off < total:
                interesting.add(b + off)
    interesting.update(p for p in positions if p % 16 == 0)
    interesting = sorted(interesting)
    n_exec = 0
    for ncuts in range(0, max_cuts + 1):
        for cuts in itertools.combinations(interesting, ncuts):
            pts = [0] + list(cuts) + [total]
            frags = [H[a:b] for a, b in zip(pts, pts[1:])]
            records = [bytes(TlsRecord(f, version, TlsContentType.HANDSHAKE).compose()) for f in frags]
            # record layer: whole stream delivered; record reader emits fragments (validated by tls_record layer)
            buf = b''
            emitted = 0
            ok = True
            w = {'layer': 'handshake_over_records', 'messages': [n for n, _ in seq], 'cuts': list(cuts)}
            for ri, rec in enumerate(records):
                kind, n, dumped = rreader.parse(rec)
                if kind != 'ok' or n != len(rec):
                    acc.violation('handshake_over_records:record_layer', 'composed record not parsed back', w)
                    ok = False
                    break
                buf += frags[ri]
                delivered = pts[ri + 1]
                while True:
                    acc.count('transitions')
                    c = bounds[emitted] if emitted < len(seq) else total
                    if emitted == len(seq):
                        break
                    end = bounds[emitted + 1]
                    kind, a, b = hreader.parse(buf)
                    if kind == 'ok':
                        if delivered < end:
                            acc.violation('handshake_over_records:premature_accept',
                                          'handshake message accepted before its last fragment', w)
                            ok = False
                            break
                        if a != end - c or b != expected[emitted]:
                            acc.violation('handshake_over_records:wrong_message',
                                          'reassembled handshake message differs (n=%d, expected %d)' % (a, end - c), w)
                            ok = False
                            break
                        buf = buf[a:]
                        emitted += 1
                        continue
                    if kind == 'ned':
                        if delivered >= end:
                            acc.violation('handshake_over_records:complete_message_rejected',
                                          'complete handshake message rejected with NotEnoughData(%s)' % a, w)
                            ok = False
                        elif not isinstance(a, int) or a < 1 or delivered + a > end:
                            acc.violation('handshake_over_records:deadlock_overask',
                                          'NotEnoughData(%s) but only %d bytes remain in the message' % (a, end - delivered),
                                          w)
                            ok = False
                        break
                    acc.violation('handshake_over_records:raises:%s' % a,
                                  'fragmented handshake message raises %s' % a, w)
                    ok = False
                    break
                if not ok:
                    break
            if ok and emitted != len(seq):
                acc.violation('handshake_over_records:lost_message', 'only %d of %d messages reassembled'
                              % (emitted, len(seq)), w)
            n_exec += 1
            acc.state(core.h64('hs', combo, cuts))
    acc.count('handshake_fragmentations', n_exec)
    if combo == (0,):
        acc.sample({'handshake_stream': [n for n, _ in seq], 'fragmentation': 'all cut sets of size <= %d over %d '
                    'positions' % (max_cuts, len(interesting))}, 1)
    return acc.result()


def run(ctx):
    depth = 3 if ctx.quick else 4
    items = []
    for name, cls, recs, extra in layers.layers():
        parts = 4 if ctx.quick else 16
        for p in range(parts):
            items.append((name, depth, p, parts))
    ctx.pmap(_layer_worker, items)
    ctx.pmap(_big_worker, list(range(len(big_records()))))
    nmsg = len(layers.handshake_messages())
    combos = []
    for n in range(1, 3 if ctx.quick else 4):
        combos += list(itertools.product(range(nmsg), repeat=n))
    ctx.pmap(_handshake_worker, [(c, 2 if len(c) <= (2 if ctx.quick else 1) else 1) if ctx.quick else
                                 (c, 3 if len(c) == 1 else 2) for c in combos])
    ctx.assumptions += [
        'records of one layer are parsed with that layer\'s class (protocol state selects the parser)',
        'parse outcome depends only on the buffer content (cached by content)',
        'handshake-over-records: cut positions = within 5 bytes of every message boundary and every 16th byte',
    ]
    return ctx.finish(rule='per layer (14 layers): all record sequences of length <= %d over a 1-5 record alphabet; '
                           'BFS over all (records emitted, bytes delivered) states with every delivery d\' >= d+k; '
                           'records at the 2^14 / 2^15 boundaries of their length fields at ~60 delivery points each; '
                           'handshake streams of <= %d messages cut at every set of <= 2-3 positions'
                           % (depth, 2 if ctx.quick else 3))


def replay(ctx, w):
    acc = core.Acc()
    if w.get('layer') == 'handshake_over_records':
        names = [n for n, _ in layers.handshake_messages()]
        combo = tuple(names.index(n) for n in w['messages'])
        res = _handshake_worker((combo, max(len(w.get('cuts', [])), 1)))
        for v in res[1]:
            if v['witness'].get('cuts') == w.get('cuts'):
                return v
        return res[1][0] if res[1] else None
    if w.get('big'):
        for i, (layer, cls, label, rec) in enumerate(big_records()):
            if label == w['big']:
                res = _big_worker(i)
                for v in res[1]:
                    if v['witness'].get('d') == w.get('d'):
                        return v
                return res[1][0] if res[1] else None
        return None
    for lname, cls, recs, extra in layers.layers():
        if lname == w['layer']:
            reader = Reader(cls, acc)
            seq = [bytes.fromhex(r['hex']) for r in w['records']]
            expected = [canon.dump(cls.parse_exact_size(r), eq=True) for r in seq]
            explore_stream(lname, reader, seq, expected, acc)
    vs = list(acc.violations.values())
    for v in vs:
        if v['signature'].endswith(w.get('clause', '\x00')):
            return v
    return vs[0] if vs else None
