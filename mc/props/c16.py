"""C16 - HASSH and SSH host-key fingerprints equal their definitions over wire bytes.

KEXINIT wire forms are built by the reference encoder (mc/ref/ssh_ref.py); the HASSH reference reads the
name-lists back from those wire bytes.  Key blobs are built by the reference from the key parameters.
"""
import itertools

from mc import canon, classes, core, objects
from mc.props import c07
from mc.ref import ssh_ref as ref

HASSH_LISTS = {'client': (0, 2, 4, 6), 'server': (0, 3, 5, 7)}


def alphabet(idx):
    from cryptoparser.ssh.subprotocol import SshKeyExchangeInit
    fields = c07.attr_fields(SshKeyExchangeInit)
    en = fields[c07.KEXINIT_LISTS[idx]].validator.type.get_param().item_class
    known = [m.value.code for m in list(en)[:3]]
    # known names, unknown names, a duplicate-able name, a name that is a prefix of a known one
    return known + ['unknown-name@verif.example', known[0][:-1], known[1] + '-x']


def seqs(idx, maxlen):
    out = [[]]
    a = alphabet(idx)
    for n in range(1, maxlen + 1):
        out += [list(c) for c in itertools.product(a, repeat=n)]
    return out


def _hassh_worker(args):
    li, lj, maxlen = args
    acc = core.Acc()
    from cryptoparser.ssh.subprotocol import SshKeyExchangeInit
    base = [['curve25519-sha256'], ['ssh-ed25519'], ['aes128-ctr'], ['aes256-ctr'], ['hmac-sha2-256'],
            ['hmac-sha1'], ['none'], ['zlib@openssh.com'], [], []]
    cookie = bytes(range(16))
    for a in seqs(li, maxlen):
        for b in (seqs(lj, maxlen) if lj is not None else [None]):
            lists = [list(x) for x in base]
            lists[li] = a
            if lj is not None:
                lists[lj] = b
            wire = ref.kexinit(cookie, lists, False, 0)
            acc.counters['transitions'] = acc.counters.get('transitions', 0) + 2
            w = {'kind': 'hassh', 'lists': lists}
            try:
                o = SshKeyExchangeInit.parse_exact_size(wire)
            except Exception:  # noqa (C07)
                acc.count('kexinit_rejected')
                continue
            for side, attr_name in (('client', 'hassh'), ('server', 'hassh_server')):
                exp = ref.hassh_from_kexinit(wire, server=(side == 'server'))
                try:
                    got = getattr(o, attr_name)
                except Exception as e:  # noqa
                    acc.violation('hassh:%s:raises:%s' % (side, core.ename(e)), 'HASSH computation raises', w)
                    continue
                if got != exp:
                    acc.violation('hassh:%s:differs' % side, '%s HASSH %s, md5 of the wire name-lists is %s'
                                  % (side, got, exp), w)
            acc.state(core.h64('hassh', repr(lists)))
    if li == 0 and lj is None:
        acc.sample({'kind': 'hassh', 'lists': base, 'client_hassh': ref.hassh(base[0], base[2], base[4], base[6])}, 1)
    return acc.result()


def check_key(acc, o, w):
    from cryptodatahub.common.algorithm import Hash
    acc.counters['transitions'] = acc.counters.get('transitions', 0) + 2
    try:
        blob = c07.any_blob(o)
    except (KeyError, OverflowError, ValueError, AttributeError, UnicodeError):
        acc.count('no_reference_blob')
        return
    try:
        fp = o.fingerprints
        kh = o.host_key_asdict().get('known_hosts') if hasattr(o, 'host_key_asdict') else None
    except classes.documented_errors():
        return
    except Exception as e:  # noqa
        acc.violation('fingerprint:raises:%s' % core.ename(e), 'fingerprints of a %s raise %s' % (type(o).__name__,
                                                                                                 core.ename(e)), w)
        return
    exp = ref.fingerprints(blob)
    fam = 'cert' if hasattr(o, 'certificate_type') else 'key'
    if fam == 'cert' and c07._where(o, blob, 0) == 'option_with_value':
        fam = 'cert_option_with_value'
    for h, name in ((Hash.SHA2_256, 'SHA256'), (Hash.SHA1, 'SHA1'), (Hash.MD5, 'MD5')):
        if fp.get(h) != exp[name]:
            acc.violation('fingerprint:%s:%s' % (fam, name), '%s fingerprint %s, digest of the RFC 4253 blob gives %s'
                          % (name, fp.get(h), exp[name]), w)
            break
    if kh is not None and kh != exp['known_hosts']:
        acc.violation('known_hosts:%s' % fam, 'known_hosts value is not the base64 of the blob', w)


def key_classes():
    return [c for c in c07.bridged_classes() if c.__name__.startswith(('SshHostKey', 'SshHostCertificate'))]


def _key_worker(args):
    qn, idx, depth = args
    acc = core.Acc()
    cls = classes.class_by_name(qn)
    objs = objects.seed_objects().get(cls, [])
    if idx >= len(objs):
        return acc.result()
    for path, o, stats in objects.neighbourhood(objs[idx], depth, False, 4000):
        check_key(acc, o, {'kind': 'key', 'cls': qn, 'seed': idx, 'path': list(path)})
        acc.state(core.h64(qn, repr(canon.dump(o))[:3000]))
    acc.sample({'kind': 'key', 'cls': qn}, 1)
    return acc.result()


def _cert_variant_worker(args):
    qn, = args
    acc = core.Acc()
    import attr
    cls = classes.class_by_name(qn)
    seeds = objects.seed_objects().get(cls, [])
    if not seeds:
        return acc.result()
    for i, ch in enumerate(c07.cert_variants(seeds[0])):
        try:
            o = attr.evolve(seeds[0], **ch)
        except Exception:  # noqa
            continue
        check_key(acc, o, {'kind': 'certvariant', 'cls': qn, 'variant': i})
        acc.state(core.h64('certvariant', qn, i))
    return acc.result()


def _keyparam_worker(args):
    part, parts, nmax = args
    acc = core.Acc()
    from cryptodatahub.common.key import PublicKey, PublicKeyParamsRsa
    from cryptodatahub.ssh.algorithm import SshHostKeyAlgorithm
    from cryptoparser.ssh.key import SshHostKeyRSA
    for i, n in enumerate(c07.boundary_ints(nmax)):
        if i % parts != part:
            continue
        try:
            o = SshHostKeyRSA(SshHostKeyAlgorithm.SSH_RSA, PublicKey.from_params(PublicKeyParamsRsa(modulus=n, public_exponent=65537)))
        except Exception:  # noqa
            continue
        check_key(acc, o, {'kind': 'rsa', 'n': hex(n)})
        acc.state(core.h64('rsa', n))
    return acc.result()


def _ecdsa_worker(args):
    part, parts = args
    acc = core.Acc()
    from cryptodatahub.common.algorithm import Hash
    from cryptoparser.ssh.key import SshHostKeyECDSA
    doc = classes.documented_errors()
    for i, (name, ident, blob) in enumerate(c07.ecdsa_wire_forms()):
        if i % parts != part:
            continue
        acc.counters['transitions'] = acc.counters.get('transitions', 0) + 1
        w = {'kind': 'ecdsa', 'algorithm': name, 'curve': ident, 'index': i}
        try:
            o = SshHostKeyECDSA.parse_exact_size(blob)
        except doc as e:
            acc.violation('ecdsa:rejected:%s' % core.ename(e), 'RFC 5656 blob %s / %s rejected: %s'
                          % (name, ident, str(e)[:60]), w)
            continue
        acc.state(core.h64('ecdsa', name, ident, i))
        exp = ref.fingerprints(blob)
        fam = 'named' if ident in name else 'oid_or_mismatch'
        if bytes(o.key_bytes) != blob:
            acc.violation('ecdsa:key_bytes:%s' % fam, 'key_bytes of %s / %s is not the RFC 4253 blob' % (name, ident), w)
        fp = o.fingerprints
        for h, hn in ((Hash.SHA2_256, 'SHA256'), (Hash.SHA1, 'SHA1'), (Hash.MD5, 'MD5')):
            if fp.get(h) != exp[hn]:
                acc.violation('ecdsa:fingerprint:%s:%s' % (fam, hn), '%s fingerprint of %s / %s is %s, digest of the blob '
                              'gives %s' % (hn, name, ident, fp.get(h), exp[hn]), w)
                break
        kh = o.host_key_asdict().get('known_hosts')
        if kh != exp['known_hosts']:
            acc.violation('ecdsa:known_hosts:%s' % fam, 'known_hosts of %s / %s is not the base64 of the blob'
                          % (name, ident), w)
    if part == 0:
        acc.sample({'kind': 'ecdsa', 'forms': len(c07.ecdsa_wire_forms())}, 1)
    return acc.result()


def _edit_worker(args):
    """Read HASSH / fingerprints, edit the message or key in place (name-list events, field assignment), read again:
    the values must be those of the equal object built by construction (which the other clauses tie to the wire)."""
    qn, idx = args
    from mc.props import c13
    acc = core.Acc()
    cls = classes.class_by_name(qn)
    objs = objects.seed_objects().get(cls, [])
    if idx >= len(objs):
        return acc.result()
    n = c13.check_edit_histories(acc, objs[idx], {'kind': 'edit', 'cls': qn, 'seed': idx},
                                 names=('hassh', 'hassh_server', 'fingerprints', 'key_bytes', 'host_key_asdict'),
                                 sigprefix='stale_fingerprint')
    acc.count('edit_histories', n)
    acc.state(core.h64('edit', qn, idx))
    return acc.result()


def _wire_worker(args):
    """For every accepted wire form b of a key / certificate (seeds and their accepted single-byte substitutions,
    plus reference encodings with non-minimal integers): the fingerprints must be the digests of b itself."""
    qn, = args
    acc = core.Acc()
    from cryptodatahub.common.algorithm import Hash
    from mc import bytefam
    from mc.props import c02
    cls = classes.class_by_name(qn)
    inputs = []
    for seed in c02.all_seeds(qn):
        inputs.append((('seed',), seed))
        inputs += list(bytefam.i2_substitutions(seed, False))
    if qn.endswith('SshHostKeyRSA'):
        # same key, integers written with a redundant leading zero byte (accepted by lenient parsers)
        e, n = 65537, (1 << 1023) + 12345
        nb = n.to_bytes(128, 'big')
        inputs.append((('nonminimal',), ref.string('ssh-rsa') + ref.string(b'\x00\x01\x00\x01') + ref.string(b'\x00\x00' + nb)))
        inputs.append((('minimal',), ref.key_rsa(e, n)))
    for tag, b in inputs:
        acc.counters['transitions'] = acc.counters.get('transitions', 0) + 1
        try:
            o, n = cls.parse_immutable(b)
        except Exception:  # noqa
            continue
        if n != len(b) or not hasattr(o, 'fingerprints'):
            continue
        acc.counters['accepted'] = acc.counters.get('accepted', 0) + 1
        if not _conformant(b, tag):
            # RFC 4251 s5 forbids redundant leading bytes; what a fingerprint of a non-conformant encoding should be
            # is not stated by the property - counted, not judged
            acc.counters['accepted_nonconformant'] = acc.counters.get('accepted_nonconformant', 0) + 1
            continue
        w = {'kind': 'wire', 'cls': qn, 'data': b, 'family': tag}
        try:
            fp = o.fingerprints
        except Exception as e:  # noqa
            acc.violation('fingerprint:raises:%s' % core.ename(e), 'fingerprints raise', w)
            continue
        exp = ref.fingerprints(b)
        if fp.get(Hash.SHA2_256) != exp['SHA256'] or fp.get(Hash.SHA1) != exp['SHA1'] or fp.get(Hash.MD5) != exp['MD5']:
            acc.violation('fingerprint:not_over_wire_bytes:%s' % tag[0], 'fingerprint of a parsed %s is not the digest of the '
                          'bytes it was parsed from' % cls.__name__, w)
        acc.state(core.h64('wire', qn, b))
    return acc.result()


def _conformant(b, tag):
    """True if b is the canonical RFC encoding of what it encodes (reference decode + re-encode == b)."""
    if tag[0] in ('seed', 'minimal'):
        return True
    try:
        d = ref.decode_key(b)
    except Exception:  # noqa - certificates and unknown layouts: only the seeds themselves are judged
        return False
    t = d['type']
    if t == 'rsa':
        if d['e'] < 0 or d['n'] < 0:
            return False
        return ref.key_rsa(d['e'], d['n'], d['name']) == b
    if t == 'dss':
        if min(d['p'], d['q'], d['g'], d['y']) < 0:
            return False
        return ref.key_dss(d['p'], d['q'], d['g'], d['y'], d['name']) == b
    if t == 'ecdsa':
        return ref.key_ecdsa(d['curve'], d['q'], d['name']) == b
    return ref.key_ed25519(d['key'], d['name']) == b


def run(ctx):
    items = []
    maxlen = 2 if ctx.quick else 3
    every = sorted(set(HASSH_LISTS['client']) | set(HASSH_LISTS['server']))
    for i in every:
        items.append((i, None, 3))
    for i, j in itertools.combinations(every, 2):
        items.append((i, j, maxlen - 1 if ctx.quick else 2))
    ctx.pmap(_hassh_worker, items)
    so = objects.seed_objects()
    kitems = []
    for cls in key_classes():
        for i in range(len(so.get(cls, []))):
            kitems.append((classes.qualname(cls), i, 1 if ctx.quick else 2))
    ctx.pmap(_key_worker, kitems)
    ctx.pmap(_keyparam_worker, [(p, 16, 1100 if ctx.quick else 4097) for p in range(16)])
    ctx.pmap(_wire_worker, [(classes.qualname(c),) for c in key_classes()])
    ctx.pmap(_ecdsa_worker, [(p, 8) for p in range(8)])
    eitems = []
    kex = [c for c in classes.parsable_classes() if c.__name__ == 'SshKeyExchangeInit']
    for cls in key_classes() + kex:
        for i in range(min(len(so.get(cls, [])), 3 if ctx.quick else 10 ** 6)):
            eitems.append((classes.qualname(cls), i))
    ctx.pmap(_edit_worker, eitems)
    ctx.pmap(_cert_variant_worker, [(classes.qualname(c),) for c in key_classes() if c.__name__.startswith('SshHostCertificate')])
    ctx.assumptions += ['HASSH = md5(kex;enc;mac;comp) over the name-lists as they appear on the wire '
                        '(client: client-to-server lists, server: server-to-client lists)',
                        'fingerprints are digests of the RFC 4253 s6.6 blob built by the reference encoder from the key '
                        'parameters; for certificates the blob is the certificate wire string']
    return ctx.finish(rule='KEXINIT wire forms with every name-list of length <= 3 (known, unknown, prefix-of-known, '
                           'duplicated names, empty) in each list HASSH reads and every pair of such lists (length <= '
                           '%d); every key and certificate within %d deviations of the seeds; RSA keys over boundary bit '
                           'lengths; ECDSA blobs for every algorithm name x every curve identifier (named and OID) x 2 '
                           'points; read / edit in place / read histories of HASSH and fingerprints for KEXINIT, keys and certificates'
                           % (1 if ctx.quick else 2, 1 if ctx.quick else 2))


def replay(ctx, w):
    acc = core.Acc()
    if w['kind'] == 'hassh':
        from cryptoparser.ssh.subprotocol import SshKeyExchangeInit
        wire = ref.kexinit(bytes(range(16)), w['lists'], False, 0)
        o = SshKeyExchangeInit.parse_exact_size(wire)
        for side, attr_name in (('client', 'hassh'), ('server', 'hassh_server')):
            if getattr(o, attr_name) != ref.hassh_from_kexinit(wire, server=(side == 'server')):
                acc.violation('hassh:%s:differs' % side, 'differs', w)
    elif w['kind'] == 'edit':
        res = _edit_worker((w['cls'], w['seed']))
        vs = [v for v in res[1] if v['witness'].get('tag') == w.get('tag')]
        return vs[0] if vs else None
    elif w['kind'] == 'ecdsa':
        res = _ecdsa_worker((0, 1))
        vs = [v for v in res[1] if v['witness'].get('index') == w.get('index')]
        return vs[0] if vs else None
    elif w['kind'] == 'certvariant':
        res = _cert_variant_worker((w['cls'],))
        vs = [v for v in res[1] if v['witness'].get('variant') == w.get('variant')] or res[1]
        return vs[0] if vs else None
    elif w['kind'] == 'wire':
        res = _wire_worker((w['cls'],))
        vs = [v for v in res[1] if v['signature'].endswith(w.get('family', ['?'])[0])] or res[1]
        return vs[0] if vs else None
    elif w['kind'] == 'rsa':
        res = _keyparam_worker((0, 1, 1100))
        vs = [v for v in res[1] if v['witness'].get('n') == w.get('n')] or res[1]
        return vs[0] if vs else None
    else:
        cls = classes.class_by_name(w['cls'])
        seed = objects.seed_objects()[cls][w['seed']]
        for path, o, stats in objects.neighbourhood(seed, len(w['path']), False, None):
            if list(path) == w['path']:
                check_key(acc, o, w)
                break
    vs = list(acc.violations.values())
    return vs[0] if vs else None
