"""C03 - reported consumed length is exact and framing units are self-delimiting.

Same enumeration kernel as C02 (families I1, I2, I3, I4 + I8 suffixes); oracle clauses 1-5 of DESIGN §5 C03.
"""
from mc import bytefam, canon, classes, core
from mc.props import c02


# ---- independent header readers: declared total frame length, or None if the header is incomplete ----------
def _u(b, off, n, little=False):
    if len(b) < off + n:
        return None
    return int.from_bytes(b[off:off + n], 'little' if little else 'big')


def d_tls_record(b):
    v = _u(b, 3, 2)
    return None if v is None else 5 + v


def d_ssl_record(b):
    if len(b) < 2:
        return None
    if b[0] & 0x80:
        return 2 + (((b[0] & 0x7f) << 8) | b[1])
    if len(b) < 3:
        return None
    return 3 + (((b[0] & 0x3f) << 8) | b[1])


def d_handshake(b):
    v = _u(b, 1, 3)
    return None if v is None else 4 + v


def d_ssh_packet(b):
    v = _u(b, 0, 4)
    return None if v is None else 4 + v


def d_banner(b):
    i = bytes(b).find(b'\n')
    return None if i < 0 else i + 1


def d_mysql(b):
    v = _u(b, 0, 3, little=True)
    return None if v is None or len(b) < 4 else 4 + v


def d_tpkt(b):
    return _u(b, 2, 2)


def d_openvpn_tcp(b):
    v = _u(b, 0, 2)
    return None if v is None else 2 + v


def _ber_end(b, pos):
    """End offset of the BER element starting at pos (X.690 8.1: definite short / long form, or the indefinite form
    closed by its end-of-contents octets), None when the buffer ends first."""
    if len(b) < pos + 2:
        return None
    l0 = b[pos + 1]
    if l0 < 0x80:
        return pos + 2 + l0
    k = l0 & 0x7f
    if k:
        if len(b) < pos + 2 + k:
            return None
        return pos + 2 + k + int.from_bytes(b[pos + 2:pos + 2 + k], 'big')
    p = pos + 2
    while True:
        if len(b) < p + 2:
            return None
        if b[p] == 0 and b[p + 1] == 0:
            return p + 2
        p = _ber_end(b, p)
        if p is None:
            return None


def d_der(b):
    return _ber_end(b, 0)


def framing_table():
    from cryptoparser.tls.subprotocol import TlsHandshakeMessage, TlsHandshakeMessageVariant
    tab = {
        'cryptoparser.tls.record.TlsRecord': d_tls_record,
        'cryptoparser.tls.record.SslRecord': d_ssl_record,
        'cryptoparser.ssh.record.SshRecordInit': d_ssh_packet,
        'cryptoparser.ssh.record.SshRecordKexDH': d_ssh_packet,
        'cryptoparser.ssh.record.SshRecordKexDHGroup': d_ssh_packet,
        'cryptoparser.ssh.subprotocol.SshProtocolMessage': d_banner,
        'cryptoparser.tls.mysql.MySQLRecord': d_mysql,
        'cryptoparser.tls.rdp.TPKT': d_tpkt,
        'cryptoparser.tls.openvpn.OpenVpnPacketWrapperTcp': d_openvpn_tcp,
        'cryptoparser.tls.ldap.LDAPExtendedRequestStartTLS': d_der,
        'cryptoparser.tls.ldap.LDAPExtendedResponseStartTLS': d_der,
        'cryptoparser.tls.postgresql.SslRequest': lambda b: 8,
        'cryptoparser.tls.postgresql.Sync': lambda b: 1,
        classes.qualname(TlsHandshakeMessageVariant): d_handshake,
    }
    for cls in classes.parsable_classes():
        if issubclass(cls, TlsHandshakeMessage):
            tab[classes.qualname(cls)] = d_handshake
    return tab


_FRAMING = {}


def framing():
    if not _FRAMING:
        _FRAMING.update(framing_table())
    return _FRAMING


SUFFIXES = ((b'\x00', '00'), (b'\xff', 'ff'), (b'\r\n', 'crlf'), (b'\n', 'lf'), (b'A', 'A'),
            (b'\x00' * 64, '64x00'), (b'\xff' * 64, '64xff'))


class Oracle(object):
    def __init__(self, acc):
        self.acc = acc
        self.doc = classes.documented_errors()
        from cryptoparser.common.exception import TooMuchData
        self.TooMuchData = TooMuchData
        self.outcomes = set()

    def _call(self, cls, entry, arg):
        self.acc.counters['transitions'] = self.acc.counters.get('transitions', 0) + 1
        try:
            if entry == 'immutable':
                return 'ok', cls.parse_immutable(arg)
            if entry == 'mutable':
                return 'ok', cls.parse_mutable(arg)
            return 'ok', cls.parse_exact_size(arg)
        except self.doc as e:
            return 'doc', e
        except core.Timeout:
            raise
        except BaseException as e:  # noqa  (C02's business)
            return 'leak', e

    def viol(self, qn, clause, what, buf, tag, extra=None):
        w = {'cls': qn, 'data': buf, 'family': tag, 'clause': clause}
        if extra:
            w.update(extra)
        self.acc.violation('%s:%s' % (qn.split('.', 1)[1], clause), what, w)

    def check(self, cls, qn, buf, tag, deep=True, other=None):
        """Runs clauses 1-5 on one buffer.  Returns 'ok' / 'doc' / 'leak'."""
        k1, r1 = self._call(cls, 'immutable', buf)
        ba = bytearray(buf)
        k2, r2 = self._call(cls, 'mutable', ba)
        self.outcomes.add((k1, type(r1).__name__ if k1 != 'ok' else r1[1] == len(buf)))
        if k1 == 'leak' or k2 == 'leak':
            return 'leak'
        if k1 == 'doc':
            if k2 == 'ok':
                self.viol(qn, 'entry_disagree', 'parse_immutable raises %s but parse_mutable succeeds'
                          % type(r1).__name__, buf, tag)
            elif bytes(ba) != buf:
                self.viol(qn, 'failed_parse_mutates_buffer', 'failed parse_mutable changed the caller buffer', buf,
                          tag)
            return 'doc'
        o, n = r1
        fr = framing().get(qn)
        if not isinstance(n, int) or n < 0 or n > len(buf):
            self.viol(qn, 'n_out_of_range', 'parse succeeded with n=%r on a %d-byte buffer' % (n, len(buf)), buf, tag)
            return 'ok'
        if fr is not None and n == 0:
            self.viol(qn, 'n_zero', 'framing unit parsed with n=0', buf, tag)
        if k2 != 'ok':
            self.viol(qn, 'entry_disagree', 'parse_immutable succeeds but parse_mutable raises %s'
                      % type(r2).__name__, buf, tag)
        else:
            if bytes(ba) != buf[n:]:
                self.viol(qn, 'mutable_remainder', 'parse_mutable left %d bytes, expected buf[%d:] (%d bytes)'
                          % (len(ba), n, len(buf) - n), buf, tag)
            if not canon.equal(o, r2):
                self.viol(qn, 'mutable_object', 'parse_mutable returned a different object', buf, tag)
        k3, r3 = self._call(cls, 'exact', buf)
        if k3 != 'leak':
            if n == len(buf):
                if k3 != 'ok':
                    self.viol(qn, 'exact_rejects_exact', 'parse_exact_size raises %s although n == len(buffer)'
                              % type(r3).__name__, buf, tag)
            else:
                if k3 == 'ok' or not isinstance(r3, self.TooMuchData):
                    self.viol(qn, 'exact_accepts_longer', 'parse_exact_size did not raise TooMuchData although '
                              'n=%d < len=%d (%s)' % (n, len(buf), 'returned' if k3 == 'ok' else type(r3).__name__),
                              buf, tag)
        if fr is not None and deep:
            self.check_framing(cls, qn, buf, o, n, fr, tag, other)
        return 'ok'

    def check_framing(self, cls, qn, buf, o, n, fr, tag, other):
        d = fr(buf)
        if d is None:
            self.viol(qn, 'accepted_without_header', 'frame accepted although its header is incomplete', buf, tag)
        elif d != n:
            trig = 'declared_lt_n' if d < n else 'declared_gt_n'
            self.viol(qn, 'declared:' + trig, 'n=%d but the frame header declares %d' % (n, d), buf, tag)
        k, r = self._call(cls, 'immutable', buf[:n])
        if k == 'leak':
            pass
        elif k != 'ok':
            self.viol(qn, 'prefix_alone', 'first n=%d bytes alone are rejected with %s' % (n, type(r).__name__), buf,
                      tag)
        elif r[1] != n or not canon.equal(r[0], o):
            self.viol(qn, 'prefix_alone', 'first n bytes alone parse differently (n=%d vs %d)' % (r[1], n), buf, tag)
        sufs = list(SUFFIXES) + [(buf[:n], 'self')]
        if other is not None:
            sufs.append((other, 'other'))
        for suf, name in sufs:
            k, r = self._call(cls, 'immutable', buf[:n] + suf)
            if k == 'leak':
                continue
            if k != 'ok':
                self.viol(qn, 'suffix_changes_result', 'frame + suffix %s is rejected with %s'
                          % (name, type(r).__name__), buf, tag, {'suffix': name})
            elif r[1] != n or not canon.equal(r[0], o):
                self.viol(qn, 'suffix_changes_result', 'frame + suffix %s parses with n=%d instead of %d%s'
                          % (name, r[1], n, '' if r[1] != n else ' (different object)'), buf, tag, {'suffix': name})


def work_items(ctx):
    items = []
    for cls in classes.parse_entry_classes():
        qn = classes.qualname(cls)
        ss = c02.all_seeds(qn)
        for i in range(len(ss)):
            items.append((qn, 'seed', i, not ctx.quick))
        items.append((qn, 'short', 0, not ctx.quick))
    return items


def _worker(args):
    qn, kind, idx, thorough = args
    acc = core.Acc()
    orc = Oracle(acc)
    cls = classes.class_by_name(qn)
    ss = c02.all_seeds(qn)
    try:
        with core.watchdog(900):
            if kind == 'seed':
                seed = ss[idx]
                other = ss[(idx + 1) % len(ss)] if len(ss) > 1 else None
                acc.state(core.h64(qn, seed))
                st0 = orc.check(cls, qn, seed, ('seed',), other=other)
                if st0 == 'doc' and qn in framing():
                    # a seed that is refused (the malformed-but-consistent frames of mc/seeds.py): still refused, or
                    # read with n beyond it, whatever follows
                    for suf in [b'\x00\xc0\x80\x00\x00', b'\x00' * 64, b'\xff' * 64, seed] + ([other] if other else []):
                        acc.count('inputs')
                        k, r = orc._call(cls, 'immutable', seed + suf)
                        if k == 'ok' and r[1] <= len(seed):
                            orc.check(cls, qn, seed + suf, ('seed', 'followed_by_data'))
                gens = [bytefam.i1_truncations(seed), bytefam.i2_substitutions(seed, thorough),
                        bytefam.i3_del_ins(seed, thorough)]
                if thorough or qn in framing():
                    gens.append(bytefam.i4_pairs(seed, thorough))
                gens += [bytefam.i11_names(seed), bytefam.i12_magic(seed) if len(seed) <= 600 else ()]
                is_frame = qn in framing()
                probes = [seed, b'\x00\xc0\x80\x00\x00', b'\x00' * 64, b'\xff' * 64] + ([other] if other else [])
                for gen in gens:
                    for tag, data in gen:
                        acc.count('inputs')
                        st = orc.check(cls, qn, data, tag)
                        if st == 'ok':
                            acc.count('accepted_mutants')
                        elif is_frame and st == 'doc' and len(data) <= 600:
                            # a frame that is refused on its own must not become acceptable, with n inside it, because
                            # of what follows it (two deviations: one octet changed, then data behind the frame)
                            for suf in probes:
                                acc.count('inputs')
                                k, r = orc._call(cls, 'immutable', data + suf)
                                if k == 'ok' and r[1] <= len(data):
                                    orc.check(cls, qn, data + suf, tuple(tag) + ('followed_by_data',))
                # I8: the seed followed by suffixes (all classes: clauses 1-3; framing: clause 5)
                for tag, suf in bytefam.i8_suffixes(seed, other):
                    acc.count('inputs')
                    orc.check(cls, qn, seed + suf, tag)
                if idx == 0:
                    acc.sample({'cls': qn, 'buffer': seed + b'\x00', 'clauses': 'n range, mutable remainder, '
                                'exact-size iff n==len, buffer untouched on failure, framing self-delimiting'}, 1)
            elif kind == 'short':
                for tag, data in bytefam.i5_short(ss, False):
                    acc.count('inputs')
                    orc.check(cls, qn, data, tag)
    except core.Timeout:
        # the item-level watchdog is a budget of this harness, not a clause of the property (run time is C19's
        # subject): the item is reported as cut, the run as capped
        acc.count('work_items_cut_by_watchdog')
        acc.sample({'cut_by_watchdog': qn, 'kind': kind, 'idx': idx, 'seconds': 900}, 3)
    for o in orc.outcomes:
        acc.state(core.h64('outcome', qn, o))
    return acc.result()


def run(ctx):
    items = work_items(ctx)
    ctx.notes['work_items'] = len(items)
    ctx.notes['framing_classes'] = sorted(framing())
    ctx.pmap(_worker, items)
    if ctx.counters.get('work_items_cut_by_watchdog'):
        ctx.cap('%d work items cut by the 900 s per-item watchdog (their remaining inputs were not run)'
                % ctx.counters['work_items_cut_by_watchdog'])
    ctx.assumptions += [
        'undocumented exception types are C02 violations and are skipped here',
        'declared frame length is read by an independent 3-6 line header reader per framing class',
        'object equality = library == and equal canonical dumps (bytes/bytearray not distinguished)',
    ]
    return ctx.finish(rule='families I1, I2, I3 (+I4 for framing classes; all classes in thorough), I5 short strings and '
                           'I8 suffixes over every seed of every class; per buffer: parse_immutable, parse_mutable on '
                           'a bytearray, parse_exact_size when accepted; for framing classes prefix-alone, 9 '
                           'suffixes and the declared length; state = distinct (class, seed) and (class, outcome)')


def replay(ctx, w):
    acc = core.Acc()
    orc = Oracle(acc)
    cls = classes.class_by_name(w['cls'])
    data = bytes.fromhex(w['data']['hex'])
    orc.check(cls, w['cls'], data, tuple(w.get('family', ())))
    want = w.get('clause')
    vs = list(acc.violations.values())
    for v in vs:
        if want and v['signature'].endswith(':' + want):
            return v
    return vs[0] if vs else None
