"""C15 - JA3 of a client hello equals the published algorithm applied to its bytes.

Client hello wire forms are built by tls_ref; ja3_ref reads the wire bytes with its own reader
(tls_ref.read_client_hello) and applies the published definition: decimal SSLVersion, Cipher, SSLExtension,
EllipticCurve, EllipticCurvePointFormat, '-' inside a section, ',' between sections, wire order, every RFC 8701
GREASE value ignored in every section, nothing else removed.
"""
import itertools

from mc import classes, core
from mc.ref import tls_ref as ref

GREASE = frozenset(0x0a0a + 0x1010 * i for i in range(16))
SCSV = (0x00ff, 0x5600)
GREASE1 = frozenset((0x0b, 0x2a, 0x49, 0x68, 0x87, 0xa6, 0xc5, 0xe4))


def ja3_ref(wire, deviations=()):
    d = ref.read_client_hello(wire)
    suites = list(d['suites'])
    if 'grease_suite_kept' not in deviations:
        suites = [s for s in suites if s not in GREASE]
    if 'scsv_omitted' in deviations:
        suites = [s for s in suites if s not in SCSV]
    exts = d['extensions'] or []
    types = [t for t, _ in exts if t not in GREASE]
    groups, pfs = [], []
    for t, data in exts:
        if t == 10:
            r = ref.Reader(data)
            body = ref.Reader(r.vec(2))
            groups = []
            while body.more():
                g = body.u(2)
                if g not in GREASE:
                    groups.append(g)
        elif t == 11:
            r = ref.Reader(data)
            pfs = list(r.vec(1))
            if 'one_byte_grease_point_format_dropped' in deviations:
                pfs = [p for p in pfs if p not in GREASE1]
    return ','.join([str(d['version']), '-'.join(map(str, suites)), '-'.join(map(str, types)),
                     '-'.join(map(str, groups)), '-'.join(map(str, pfs))])


DEVIATIONS = ('grease_suite_kept', 'scsv_omitted', 'one_byte_grease_point_format_dropped')


def triggers(wire):
    d = ref.read_client_hello(wire)
    out = set()
    if any(s in GREASE for s in d['suites']):
        out.add('grease_suite_kept')
    if any(s in SCSV for s in d['suites']):
        out.add('scsv_omitted')
    for t, data in d['extensions'] or []:
        if t == 11 and any(p in GREASE1 for p in data[1:]):
            out.add('one_byte_grease_point_format_dropped')
    return out


def check(acc, wire, w):
    from cryptoparser.tls.subprotocol import TlsHandshakeClientHello
    acc.counters['transitions'] = acc.counters.get('transitions', 0) + 1
    try:
        o = TlsHandshakeClientHello.parse_exact_size(wire)
    except Exception:  # noqa (C06)
        acc.count('rejected')
        return
    try:
        got = o.ja3()
    except Exception as e:  # noqa
        acc.violation('ja3:raises:%s' % core.ename(e), 'ja3() raises %s' % core.ename(e), w)
        return
    exp = ja3_ref(wire)
    acc.state(core.h64('ja3', exp))
    if got != exp:
        trig = sorted(triggers(wire))
        explained = None
        for n in range(1, len(trig) + 1):
            for sub in itertools.combinations(trig, n):
                if ja3_ref(wire, sub) == got:
                    explained = sub
                    break
            if explained:
                break
        if explained:
            # one finding per deviation; a combination is covered only if every member is
            for dev in explained:
                acc.violation('ja3:deviation:%s' % dev,
                              'JA3 %r differs from the published algorithm (%r) exactly by: %s'
                              % (got, exp, ', '.join(explained)), w)
        else:
            gs, es = got.split(','), exp.split(',')
            sec = next((i for i in range(min(len(gs), len(es))) if gs[i] != es[i]), -1)
            acc.violation('ja3:unexplained:section%d' % sec, 'JA3 %r, published algorithm gives %r' % (got, exp), w)
        return
    # the value is a function of the message: compose + parse again gives the same JA3
    acc.counters['transitions'] = acc.counters.get('transitions', 0) + 1
    try:
        again = TlsHandshakeClientHello.parse_exact_size(bytes(o.compose())).ja3()
        if again != got:
            acc.violation('ja3:changes_after_roundtrip', 'JA3 changes after compose+parse: %r -> %r' % (got, again), w)
    except Exception:  # noqa
        pass


def hello(version, suites, exts):
    return ref.client_hello(version, 1577836800, bytes(range(28)), b'', suites, [0], exts)


SUITE_POOL = (0x002f, 0x1301, 0xeeee, 0x0a0a, 0x00ff, 0x5600, 0x3a4a)   # 0x3a4a: GREASE look-alike (0x?a?a, bytes differ)
EXT_POOL = ('server_name', 'supported_groups', 'ec_point_formats', 'session_ticket', 'padding', 'unassigned', 'grease',
            'lookalike', 'pre_shared_key', 'renegotiation_info')   # the last two: kinds implementations like to move
GROUP_POOL = (29, 23, 0xeeee, 0x1a1a, 0x1a2a)
PF_POOL = (0, 1, 0xee, 0x0b)


def ext_of(name, groups, pfs):
    if name == 'server_name':
        return (0, ref.ext_server_name(b'example.com'))
    if name == 'supported_groups':
        return (10, ref.ext_supported_groups(groups))
    if name == 'ec_point_formats':
        return (11, ref.ext_ec_point_formats(pfs))
    if name == 'session_ticket':
        return (35, b'')
    if name == 'padding':
        return (21, b'\x00\x00')
    if name == 'unassigned':
        return (0xeeee, b'x')
    if name == 'lookalike':
        return (0x4a5a, b'')
    if name == 'pre_shared_key':
        return (41, b'\x00\x06\x00\x02id\x00\x00\x00\x00\x00\x04\x03abc')
    if name == 'renegotiation_info':
        return (0xff01, b'\x00')
    return (0x2a2a, b'')


def seqs(pool, maxlen, minlen=0):
    out = []
    for n in range(minlen, maxlen + 1):
        out += [list(c) for c in itertools.product(pool, repeat=n)]
    return out


def _worker(args):
    mode, part, parts, k3 = args
    acc = core.Acc()
    versions = (0x0300, 0x0301, 0x0302, 0x0303, 0x0304, 0x7f1c)
    base_suites = [0x002f]
    base_groups = [29, 23]
    base_pfs = [0]
    n = 0

    def emit(version, suites, ext_names, groups, pfs):
        nonlocal n
        n += 1
        if n % parts != part:
            return
        exts = None if ext_names is None else [ext_of(x, groups, pfs) for x in ext_names]
        wire = hello(version, suites, exts)
        check(acc, wire, {'version': version, 'suites': suites, 'extensions': ext_names, 'groups': groups,
                          'point_formats': pfs})
    suite_seqs = seqs(SUITE_POOL, 3, 1)
    ext_seqs = [None] + seqs(EXT_POOL, 3)
    group_seqs = seqs(GROUP_POOL, 2, 1)
    pf_seqs = seqs(PF_POOL, 2, 1)
    if mode == 'single':
        for v in versions:
            emit(v, base_suites, ['supported_groups', 'ec_point_formats'], base_groups, base_pfs)
        for s in suite_seqs:
            emit(0x0303, s, ['supported_groups', 'ec_point_formats'], base_groups, base_pfs)
        for e in ext_seqs:
            emit(0x0303, base_suites, e, base_groups, base_pfs)
        for g in group_seqs:
            emit(0x0303, base_suites, ['supported_groups'], g, base_pfs)
        for p in pf_seqs:
            emit(0x0303, base_suites, ['ec_point_formats'], base_groups, p)
    elif mode == 'pairs':
        # two sections deviating at once
        for s in suite_seqs:
            for e in ext_seqs:
                emit(0x0303, s, e, base_groups, base_pfs)
        for s in suite_seqs:
            for g in group_seqs:
                emit(0x0303, s, ['supported_groups', 'ec_point_formats'], g, base_pfs)
            for p in pf_seqs:
                emit(0x0303, s, ['ec_point_formats', 'supported_groups'], base_groups, p)
        for e in ext_seqs:
            if e is None or 'supported_groups' not in e and 'ec_point_formats' not in e:
                continue
            for g in group_seqs:
                emit(0x0303, base_suites, e, g, base_pfs)
            for p in pf_seqs:
                emit(0x0303, base_suites, e, base_groups, p)
        for v in versions:
            for s in suite_seqs:
                emit(v, s, ['supported_groups'], base_groups, base_pfs)
    else:
        # three sections at once (thorough)
        for s in seqs(SUITE_POOL, 2, 1):
            for e in ext_seqs:
                if e is None or 'supported_groups' not in e:
                    continue
                for g in group_seqs:
                    for p in pf_seqs[:6]:
                        emit(0x0303, s, e, g, p)
    if part == 0:
        acc.sample({'client_hello': hello(0x0303, [0x0a0a, 0x002f, 0x00ff], [(10, ref.ext_supported_groups([0x1a1a, 29]))]),
                    'ja3_ref': ja3_ref(hello(0x0303, [0x0a0a, 0x002f, 0x00ff], [(10, ref.ext_supported_groups([0x1a1a, 29]))]))}, 1)
    return acc.result()


def cross_width_hellos():
    """(one-octet carriers, two-octet carriers): for every number c in 0..255 a hello that carries c in its one-octet
    code lists (point formats, PSK key exchange modes, compression methods) and a hello that carries the same number
    as a two-octet code (cipher suite, named group, extension type).  The classification of a number in one code
    space says nothing about the other (RFC 8701: 0x2A is a GREASE PSK mode, 42 is the early_data extension)."""
    one, two = [], []
    for c in range(256):
        one.append(ref.client_hello(0x0303, 1577836800, bytes(range(28)), b'', [0x1301], [0, c] if c else [0],
                                    [(11, ref.ext_ec_point_formats([0, c])), (45, bytes((2, c, 1)))]))
        exts = [(10, ref.ext_supported_groups([29, c]))]
        if c not in (10, 11):
            exts.append((c, b''))
        two.append(hello(0x0303, [0x1301, c], exts))
        two.append(hello(0x0303, [0x1301, c], exts[:1]))
    return one, two


def _cross_width_worker(order):
    """Fresh process: every one-octet carrier, then every two-octet carrier (or the reverse), each judged against the
    reference JA3 - a classification remembered from the other code space shows as a mismatch."""
    acc = core.Acc()
    one, two = cross_width_hellos()
    seq = one + two if order == 'one_then_two' else two + one
    for i, wire in enumerate(seq):
        check(acc, wire, {'kind': 'cross_width', 'order': order, 'index': i, 'wire': wire})
    # signatures name the order: the finding is the dependence on what was parsed before
    if order == 'one_then_two':
        acc.sample({'kind': 'cross_width', 'hellos': len(seq), 'orders': ['one_then_two', 'two_then_one']}, 1)
    out = acc.result()
    for v in out[1]:
        if not v['signature'].startswith('ja3:deviation:'):
            v['signature'] = v['signature'] + ':after_other_code_space'
    return out


def history_panel():
    """Client hello wire forms for the pristine-process histories: every single extension kind, all kinds together,
    groups and point formats with GREASE and unassigned codes - with the JA3 the reference computes for them."""
    CH = 'cryptoparser.tls.subprotocol.TlsHandshakeClientHello'
    panel = []
    for exts in [None, []] + [[e] for e in EXT_POOL] + [list(EXT_POOL), ['supported_groups', 'ec_point_formats'],
                                                       ['ec_point_formats', 'supported_groups', 'server_name']]:
        for groups, pfs in (([29, 23], [0]), ([0x1a1a, 29, 0xeeee], [0, 1])):
            ex = None if exts is None else [ext_of(x, groups, pfs) for x in exts]
            wire = hello(0x0303, [0x1301, 0x002f, 0x0a0a], ex)
            if [CH, wire.hex(), 'ja3'] not in panel:
                panel.append([CH, wire.hex(), 'ja3'])
    return panel


def run(ctx):
    parts = 32
    items = [('single', p, parts, False) for p in range(parts)] + [('pairs', p, parts, False) for p in range(parts)]
    if not ctx.quick:
        items += [('triples', p, parts, True) for p in range(parts)]
    ctx.pmap(_worker, items)
    ctx.pmap(_cross_width_worker, ['one_then_two', 'two_then_one'], fresh=True)
    from mc import classes, history
    prefixes = history.class_prefixes(keep=lambda q: classes.family(q) == 'tls')
    history.explore(ctx, history_panel(), prefixes, 'JA3 of a client hello',
                    lambda first: 'ja3:depends_on_history:after:%s' % first)
    ctx.assumptions += ['JA3 per the published definition (salesforce/ja3 README): GREASE = the sixteen 0x?A?A values; '
                        'one-byte values are never GREASE for JA3',
                        'known findings are matched by deviation: a mismatch is covered only when the library string equals '
                        'the reference recomputed under exactly the listed deviations whose trigger is present']
    return ctx.finish(rule='client hello wire forms: 6 versions; every suite list of length 1-3 over {2 known, unassigned, GREASE look-alike, '
                           'GREASE, 00ff, 5600}; every extension list of length 0-3 (and absent) over 7 extension kinds '
                           'with duplicates; group lists of length 1-2 over 4 codes; point-format lists of length 1-2 over '
                           '4 codes; every combination of two deviating sections%s; pristine-interpreter histories: a 40-hello panel '
                           'alone vs. after the seeds of every single TLS class and after all of them (both orders); every number 0..255 '
                           'as a one-octet code (point format, PSK mode, compression) and as a two-octet code (suite, group, '
                           'extension type) in one fresh process, both orders'
                           % ('' if ctx.quick else '; three deviating sections'))


def replay(ctx, w):
    acc = core.Acc()
    if w.get('kind') == 'pristine_history':
        from mc import history
        if history.replay_one(w):
            return {'signature': 'ja3:depends_on_history:after:%s' % w['first_label'].rsplit('.', 1)[-1],
                    'what': 'JA3 depends on what was parsed before', 'witness': w}
        return None
    if w.get('kind') == 'cross_width':
        res = _cross_width_worker(w['order'])       # the replay process has parsed nothing before
        for v in res[1]:
            if v['witness'].get('index') == w['index']:
                return v
        return res[1][0] if res[1] else None
    exts = None if w['extensions'] is None else [ext_of(x, w['groups'], w['point_formats']) for x in w['extensions']]
    check(acc, hello(w['version'], w['suites'], exts), w)
    vs = list(acc.violations.values())
    return vs[0] if vs else None
