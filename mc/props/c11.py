"""C11 - integer, flag, mpint and timestamp primitives are exact and never truncate.

Enumerates ComposerBinary / ParserBinary directly: widths 1, 2 (all values), 3 (all 2^24 in the thorough tier),
4 and 8 (boundary patterns), four byte orders, out-of-range values, flag subsets, fixed-length and SSH mpints,
and timestamps under a set of process TZ configurations (os.environ['TZ'] + time.tzset()).
"""
import datetime
import itertools
import os
import re
import sys
import time

from mc import core

ORDERS = ('NATIVE', 'LITTLE_ENDIAN', 'BIG_ENDIAN', 'NETWORK')


def endian(order):
    if order in ('BIG_ENDIAN', 'NETWORK'):
        return 'big'
    if order == 'LITTLE_ENDIAN':
        return 'little'
    return sys.byteorder


def _lib():
    from cryptoparser.common.parse import ByteOrder, ComposerBinary, ParserBinary
    from cryptodatahub.common.exception import InvalidValue
    return ByteOrder, ComposerBinary, ParserBinary, InvalidValue


def values_for(width, thorough):
    if width <= 2:
        return list(range(256 ** width))
    if width == 3 and thorough:
        return range(256 ** 3)
    vals = set()
    top = 256 ** width
    for k in range(8 * width + 1):
        for d in (-1, 0, 1):
            v = (1 << k) + d
            if 0 <= v < top:
                vals.add(v)
    for i in range(width):
        for a in range(256):
            vals.add(a << (8 * i))
    for i in range(width - 1):          # two adjacent bytes
        for a in (1, 0x7f, 0x80, 0xff):
            for b in range(256):
                vals.add(((a << 8) | b) << (8 * i))
    if width == 3:
        for i, j in itertools.combinations(range(3), 2):
            for a in range(256):
                for b in range(256):
                    vals.add((a << (8 * i)) | (b << (8 * j)))
    return sorted(vals)


def _int_worker(args):
    width, order, lo, hi, thorough = args
    acc = core.Acc()
    ByteOrder, ComposerBinary, ParserBinary, InvalidValue = _lib()
    bo = ByteOrder[order]
    e = endian(order)
    vals = values_for(width, thorough)[lo:hi]
    CH = 2048
    for i in range(0, len(vals), CH):
        chunk = list(vals[i:i + CH])
        ref = b''.join(v.to_bytes(width, e) for v in chunk)
        w = {'kind': 'int', 'width': width, 'order': order, 'first': chunk[0], 'count': len(chunk)}
        acc.counters['transitions'] = acc.counters.get('transitions', 0) + 2 * len(chunk)
        try:
            c = ComposerBinary(byte_order=bo)
            c.compose_numeric_array(chunk, width)
            got = bytes(c.composed_bytes)
        except Exception as ex:  # noqa
            acc.violation('int:compose_raises:w%d:%s:%s' % (width, order, core.ename(ex)),
                          'compose_numeric_array of in-range values raises %s' % core.ename(ex), w)
            continue
        if got != ref:
            bad = next((v for k, v in enumerate(chunk) if got[k * width:(k + 1) * width] != ref[k * width:(k + 1) * width]),
                       None)
            w2 = dict(w, value=bad)
            acc.violation('int:compose_wrong:w%d:%s' % (width, order), 'value %r composes to %s, int.to_bytes gives %s'
                          % (bad, got[:width].hex() if bad is None else
                             got[chunk.index(bad) * width:(chunk.index(bad) + 1) * width].hex(),
                             bad.to_bytes(width, e).hex() if bad is not None else '?'), w2)
        try:
            p = ParserBinary(ref, byte_order=bo)
            p.parse_numeric_array('v', len(chunk), width)
            back = p['v']
            plen = p.parsed_length
        except Exception as ex:  # noqa
            acc.violation('int:parse_raises:w%d:%s:%s' % (width, order, core.ename(ex)),
                          'parse_numeric_array raises %s' % core.ename(ex), w)
            continue
        if list(back) != chunk or plen != len(ref):
            bad = next((v for v, b in zip(chunk, back) if v != b), None)
            acc.violation('int:parse_wrong:w%d:%s' % (width, order), 'bytes of %r parse to something else (n=%d)'
                          % (bad, plen), dict(w, value=bad))
    # single-value API on a small boundary set
    for v in (0, 1, 256 ** width - 1, 256 ** width // 2):
        acc.counters['transitions'] = acc.counters.get('transitions', 0) + 2
        c = ComposerBinary(byte_order=bo)
        c.compose_numeric(v, width)
        if bytes(c.composed_bytes) != v.to_bytes(width, e):
            acc.violation('int:compose_wrong:w%d:%s' % (width, order), 'compose_numeric(%d) wrong' % v,
                          {'kind': 'int', 'width': width, 'order': order, 'first': v, 'count': 1, 'value': v})
        p = ParserBinary(v.to_bytes(width, e), byte_order=bo)
        p.parse_numeric('v', width)
        if p['v'] != v:
            acc.violation('int:parse_wrong:w%d:%s' % (width, order), 'parse_numeric of %d wrong' % v,
                          {'kind': 'int', 'width': width, 'order': order, 'first': v, 'count': 1, 'value': v})
    acc.state(core.h64('int', width, order, lo))
    if lo == 0:
        acc.sample({'primitive': 'compose_numeric_array/parse_numeric_array', 'width': width, 'order': order,
                    'values_in_this_item': len(vals)}, 1)
    return acc.result()


def _range_worker(_):
    """Out-of-range values must be rejected with InvalidValue: never struct.error, never wrapped."""
    acc = core.Acc()
    ByteOrder, ComposerBinary, ParserBinary, InvalidValue = _lib()
    for width in (1, 2, 3, 4, 8):
        top = 256 ** width
        bad = [-1, -2, -128, -129, -(1 << 15), -(1 << 31), -(1 << 63), top, top + 1, top * 2, top * 256 - 1,
               1 << 64, (1 << 64) + 1, 1 << 71]
        bad += [-(1 << k) for k in range(0, 66, 8)]
        for order in ORDERS:
            for v in sorted(set(bad)):
                if 0 <= v < top:
                    continue
                acc.count('transitions')
                w = {'kind': 'range', 'width': width, 'order': order, 'value': v}
                c = ComposerBinary(byte_order=ByteOrder[order])
                try:
                    c.compose_numeric(v, width)
                except InvalidValue:
                    acc.state(core.h64('range', width, order, 'rejected'))
                    continue
                except Exception as ex:  # noqa
                    acc.violation('range:wrong_error:w%d:%s' % (width, core.ename(ex)),
                                  '%d in a %d-byte field raises %s, not InvalidValue' % (v, width, core.ename(ex)), w)
                    continue
                acc.violation('range:truncated:w%d' % width, '%d does not fit %d bytes but is encoded as %s'
                              % (v, width, bytes(c.composed_bytes).hex()), w)
    # empty array
    for order in ORDERS:
        c = ComposerBinary(byte_order=ByteOrder[order])
        c.compose_numeric_array([], 2)
        acc.count('transitions')
        if bytes(c.composed_bytes) != b'':
            acc.violation('int:empty_array', 'empty array composes to bytes', {'kind': 'range', 'width': 2,
                                                                               'order': order, 'value': None})
    return acc.result()


def flag_enums():
    from cryptoparser.dnsrec.record import DnsSecFlag
    from cryptoparser.tls.mysql import MySQLCapability, MySQLStatusFlag
    from cryptoparser.tls.rdp import RDPProtocol, RDPNegotiationRequestFlags, RDPNegotiationResponseFlags
    return [(DnsSecFlag, 2, 'BIG_ENDIAN', 0), (MySQLStatusFlag, 2, 'LITTLE_ENDIAN', 0),
            (MySQLCapability, 2, 'LITTLE_ENDIAN', 0), (MySQLCapability, 2, 'LITTLE_ENDIAN', 16),
            (MySQLCapability, 4, 'LITTLE_ENDIAN', 0),
            (RDPProtocol, 4, 'LITTLE_ENDIAN', 0), (RDPNegotiationRequestFlags, 1, 'LITTLE_ENDIAN', 0),
            (RDPNegotiationResponseFlags, 1, 'LITTLE_ENDIAN', 0)]


def _flag_worker(fi):
    acc = core.Acc()
    ByteOrder, ComposerBinary, ParserBinary, InvalidValue = _lib()
    en, size, order, shift = flag_enums()[fi]
    members = list(en)
    e = endian(order)
    field_mask = (256 ** size - 1) << shift
    usable = [m for m in members if (int(m) & field_mask) == int(m) and int(m)]
    if len(usable) <= 15:
        subsets = []
        for r in range(len(usable) + 1):
            subsets += list(itertools.combinations(usable, r))
    else:
        subsets = []
        for r in range(4):
            for s in itertools.combinations(usable, r):
                subsets.append(s)
                subsets.append(tuple(m for m in usable if m not in s))
    label = '%s/%d/%d' % (en.__name__, size, shift)
    for s in subsets:
        acc.counters['transitions'] = acc.counters.get('transitions', 0) + 2
        word = 0
        for m in s:
            word |= int(m)
        ref = (word >> shift).to_bytes(size, e)
        w = {'kind': 'flags', 'enum': en.__name__, 'size': size, 'shift': shift, 'members': [m.name for m in s]}
        for variant, arg in (('list', list(s)), ('set', set(s)), ('dup', list(s) + list(s)[:1])):
            c = ComposerBinary(byte_order=ByteOrder[order])
            try:
                c.compose_numeric_flags(arg, size, shift)
                got = bytes(c.composed_bytes)
            except Exception as ex:  # noqa
                acc.violation('flags:compose_raises:%s:%s' % (label, core.ename(ex)), 'compose_numeric_flags raises',
                              w)
                continue
            if got != ref:
                acc.violation('flags:compose_wrong:%s:%s' % (label, variant), 'flag %s %s composes to %s, OR of '
                              'members is %s' % (variant, [m.name for m in s], got.hex(), ref.hex()), w)
        p = ParserBinary(ref, byte_order=ByteOrder[order])
        try:
            p.parse_numeric_flags('f', size, en, shift)
        except Exception as ex:  # noqa
            acc.violation('flags:parse_raises:%s:%s' % (label, core.ename(ex)), 'parse_numeric_flags raises', w)
            continue
        got = p['f']
        exp = {m for m in members if int(m) & word & field_mask}
        if set(got) != exp or any(type(x) is not en for x in got):
            acc.violation('flags:parse_wrong:%s' % label, 'word %s parses to %s, expected %s'
                          % (ref.hex(), sorted(x.name for x in got), sorted(x.name for x in exp)), w)
        acc.state(core.h64('flags', label, word))
    # every word of a 1- or 2-byte flag field: parse, then compose what was parsed -> word & defined bits
    if size <= 2:
        defined = 0
        for m in members:
            defined |= int(m)
        for word in range(256 ** size):
            acc.counters['transitions'] = acc.counters.get('transitions', 0) + 2
            raw = word.to_bytes(size, e)
            p = ParserBinary(raw, byte_order=ByteOrder[order])
            p.parse_numeric_flags('f', size, en, shift)
            got = p['f']
            exp = {m for m in members if int(m) & (word << shift)}
            w = {'kind': 'flagword', 'enum': en.__name__, 'size': size, 'shift': shift, 'word': word}
            if set(got) != exp:
                acc.violation('flags:parse_wrong:%s' % label, 'word %#x parses to %s' % (word, sorted(x.name for x in got)),
                              w)
                continue
            c = ComposerBinary(byte_order=ByteOrder[order])
            c.compose_numeric_flags(got, size, shift)
            back = int.from_bytes(bytes(c.composed_bytes), e)
            if back != (word & (defined >> shift)):
                acc.violation('flags:roundtrip:%s' % label, 'word %#x -> flags -> %#x (defined bits %#x)'
                              % (word, back, defined >> shift), w)
    acc.sample({'flags': label, 'subsets': len(subsets)}, 1)
    return acc.result()


def ref_ssh_mpint(v):
    """RFC 4251 section 5: two's complement, big-endian, minimal; zero is the empty string."""
    if v == 0:
        body = b''
    else:
        n = ((v if v >= 0 else ~v).bit_length() + 8) // 8
        body = v.to_bytes(n, 'big', signed=True)
    return len(body).to_bytes(4, 'big') + body


def mpint_values(thorough, part, parts):
    vals = set(range(-(1 << 17), (1 << 17) + 1)) if part == 0 else set()
    nmax = 4097 if thorough else 1100
    for n in range(part, nmax + 1, parts):
        for d in (-1, 0, 1):
            vals.add((1 << n) + d)
            vals.add(-((1 << n) + d))
    return sorted(vals)


def _mpint_worker(args):
    part, parts, thorough = args
    acc = core.Acc()
    ByteOrder, ComposerBinary, ParserBinary, InvalidValue = _lib()
    for v in mpint_values(thorough, part, parts):
        acc.counters['transitions'] = acc.counters.get('transitions', 0) + 2
        ref = ref_ssh_mpint(v)
        w = {'kind': 'sshmpint', 'value': hex(v)}
        try:
            c = ComposerBinary()
            c.compose_ssh_mpint(v)
            got = bytes(c.composed_bytes)
        except Exception as ex:  # noqa
            acc.violation('sshmpint:compose_raises:%s:%s' % ('neg' if v < 0 else 'nonneg', core.ename(ex)),
                          'compose_ssh_mpint(%s...) raises %s' % (hex(v)[:20], core.ename(ex)), w)
            got = None
        if got is not None and got != ref and v < 0:
            # the statement demands minimality for non-negative integers only; negatives must round-trip
            try:
                p = ParserBinary(got)
                p.parse_ssh_mpint('v')
                if p['v'] == v and p.parsed_length == len(got):
                    got = ref
            except Exception:  # noqa
                pass
        if got is not None and got != ref:
            kind = 'neg' if v < 0 else 'nonneg'
            acc.violation('sshmpint:compose_wrong:%s' % kind, 'mpint of %s... is %s..., RFC 4251 gives %s...'
                          % (hex(v)[:24], got[:12].hex(), ref[:12].hex()), w)
        try:
            p = ParserBinary(ref + b'\xaa')
            p.parse_ssh_mpint('v')
            back, n = p['v'], p.parsed_length
        except Exception as ex:  # noqa
            acc.violation('sshmpint:parse_raises:%s:%s' % ('neg' if v < 0 else 'nonneg', core.ename(ex)),
                          'parse_ssh_mpint of the RFC encoding of %s... raises %s' % (hex(v)[:20], core.ename(ex)), w)
            continue
        if back != v or n != len(ref):
            acc.violation('sshmpint:parse_wrong:%s' % ('neg' if v < 0 else 'nonneg'),
                          'RFC encoding of %s... parses to %s... (n=%d of %d)' % (hex(v)[:24], hex(back)[:24], n, len(ref)),
                          w)
    acc.state(core.h64('sshmpint', part))
    if part == 0:
        # fixed-length mpint: every value in [0, 2^16] x lengths x byte orders
        for length in (1, 2, 3, 4, 5, 8, 20):
            for order in ORDERS:
                e = endian(order)
                for v in range(0, (1 << 16) + 1):
                    acc.counters['transitions'] = acc.counters.get('transitions', 0) + 1
                    fits = v < 256 ** length
                    w = {'kind': 'mpint', 'value': v, 'length': length, 'order': order}
                    c = ComposerBinary(byte_order=ByteOrder[order])
                    try:
                        c.compose_mpint(v, length)
                        got = bytes(c.composed_bytes)
                    except InvalidValue:
                        if fits:
                            acc.violation('mpint:fitting_rejected:%s' % order, '%d fits %d bytes but is rejected'
                                          % (v, length), w)
                        continue
                    except Exception as ex:  # noqa
                        acc.violation('mpint:compose_raises:%s:%s' % (order, core.ename(ex)),
                                      'compose_mpint raises %s' % core.ename(ex), w)
                        continue
                    if not fits:
                        acc.violation('mpint:truncated:%s' % order, '%d does not fit %d bytes, encoded as %s'
                                      % (v, length, got.hex()), w)
                        continue
                    if got != v.to_bytes(length, e):
                        acc.violation('mpint:compose_wrong:%s' % order, 'compose_mpint(%d, %d) = %s, expected %s'
                                      % (v, length, got.hex(), v.to_bytes(length, e).hex()), w)
                        continue
                    if e == 'big':
                        p = ParserBinary(got + b'\x55', byte_order=ByteOrder[order])
                        p.parse_mpint('v', length)
                        if p['v'] != v or p.parsed_length != length:
                            acc.violation('mpint:parse_wrong:%s' % order, 'parse_mpint of %s = %d' % (got.hex(), p['v']),
                                          w)
                acc.state(core.h64('mpint', length, order))
        acc.sample({'ssh_mpint': '-0x80', 'rfc4251': ref_ssh_mpint(-128)}, 1)
    return acc.result()


# ---- primitives at a non-zero position of the buffer ------------------------------------------------------------
def sequence_fields():
    """Small field alphabet for sequences: (kind, parameter, value, reference bytes)."""
    out = []
    for width in (1, 2, 3, 4, 8):
        for v in (0, 1, 0x80 << (8 * (width - 1)), 256 ** width - 1):
            out.append(('num', width, v, v.to_bytes(width, 'big')))
    for v in (0, 1, -1, 0x7f, 0x80, -0x80, -0x81, 0x1234567, -0x123456, 1 << 64, -(1 << 64), (1 << 32) - 1,
              -((1 << 32) - 1)):
        out.append(('sshmpint', None, v, ref_ssh_mpint(v)))
    for size, sec in ((4, 0), (4, 1 << 31), (4, (1 << 32) - 2), (8, 0), (8, (1 << 32) - 2)):   # instants in 1970..2106
        out.append(('ts', size, sec, sec.to_bytes(size, 'big')))
    for n in (0, 1, 3):
        out.append(('raw', n, bytes(range(0x80, 0x80 + n)), bytes(range(0x80, 0x80 + n))))
    return out


def _sequence_worker(args):
    """Every ordered pair of fields (and every triple whose middle field is an SSH mpint) written by one composer and
    read back by one parser: a primitive must work at any position of the buffer, not only at offset 0."""
    part, parts = args
    acc = core.Acc()
    ByteOrder, ComposerBinary, ParserBinary, InvalidValue = _lib()
    utc = datetime.timezone.utc
    fields = sequence_fields()
    seqs = [(a, b) for a in fields for b in fields]
    mp = [f for f in fields if f[0] == 'sshmpint']
    seqs += [(a, m, b) for a in fields[::3] for m in mp for b in mp]
    for si, seq in enumerate(seqs):
        if si % parts != part:
            continue
        acc.counters['transitions'] = acc.counters.get('transitions', 0) + 2 * len(seq)
        ref = b''.join(f[3] for f in seq)
        w = {'kind': 'sequence', 'fields': [[f[0], f[1], f[2] if not isinstance(f[2], bytes) else f[2].hex()] for f in seq]}
        label = '+'.join(f[0] for f in seq)
        c = ComposerBinary()
        try:
            for kind, par, v, _ in seq:
                if kind == 'num':
                    c.compose_numeric(v, par)
                elif kind == 'sshmpint':
                    c.compose_ssh_mpint(v)
                elif kind == 'ts':
                    c.compose_timestamp(datetime.datetime(1970, 1, 1, tzinfo=utc) + datetime.timedelta(seconds=v),
                                        item_size=par)
                else:
                    c.compose_raw(v)
            got = bytes(c.composed_bytes)
        except Exception as ex:  # noqa
            acc.violation('sequence:compose_raises:%s:%s' % (label, core.ename(ex)), 'composing %s raises' % label, w)
            got = None
        if got is not None and got != ref:
            # negative SSH mpints need not be minimal (see above): judged by the read-back below
            if not any(f[0] == 'sshmpint' and f[2] < 0 for f in seq):
                acc.violation('sequence:compose_wrong:%s' % label, 'fields %s compose to %s, expected %s'
                              % (label, got.hex()[:60], ref.hex()[:60]), w)
        p = ParserBinary(ref + b'\xaa')
        try:
            back = []
            for k, (kind, par, v, _) in enumerate(seq):
                name = 'f%d' % k
                if kind == 'num':
                    p.parse_numeric(name, par)
                    back.append(p[name])
                elif kind == 'sshmpint':
                    p.parse_ssh_mpint(name)
                    back.append(p[name])
                elif kind == 'ts':
                    p.parse_timestamp(name, item_size=par)
                    back.append(int((p[name] - datetime.datetime(1970, 1, 1, tzinfo=utc)).total_seconds()))
                else:
                    p.parse_raw(name, par)
                    back.append(bytes(p[name]))
        except Exception as ex:  # noqa
            acc.violation('sequence:parse_raises:%s:%s' % (label, core.ename(ex)), 'reading %s back raises' % label, w)
            continue
        exp = [f[2] for f in seq]
        if back != exp or p.parsed_length != len(ref):
            k = next((i for i in range(len(seq)) if back[i] != exp[i]), len(seq) - 1)
            acc.violation('sequence:parse_wrong:%s@%d' % (seq[k][0], min(k, 1)),
                          'field %d (%s) of the sequence %s reads back as %r, expected %r'
                          % (k, seq[k][0], label, back[k], exp[k]), w)
        acc.state(core.h64('sequence', ref))
    if part == 0:
        acc.sample({'kind': 'sequence', 'fields': len(fields), 'sequences': len(seqs)}, 1)
    return acc.result()


# ---- timestamps x process configurations -------------------------------------------------------------------
ZONES = ['UTC', 'Etc/GMT+12', 'Etc/GMT-14', 'Asia/Kathmandu', 'Europe/Moscow', 'America/Caracas',
         'Australia/Lord_Howe', 'America/New_York', 'Europe/London', 'America/Sao_Paulo', 'Pacific/Apia',
         'Africa/Casablanca', 'EST5EDT,M3.2.0,M11.1.0', 'XYZ-3:30ABC,M10.1.0/2,M3.3.0/3']


def instants(thorough, zone, step_days=None):
    """Epoch seconds to test: a day grid 1970..2106, boundaries, and every UTC-offset transition of the zone
    with +-{0,1,1799,1800,3599,3600} s."""
    out = set()
    step_days = step_days or (1 if thorough else 7)
    end = 0xffffffff
    for d in range(0, end // 86400 + 1, step_days):
        out.add(d * 86400)
        out.add(d * 86400 + 43200)
    for b in (0, 1, (1 << 31) - 1, 1 << 31, (1 << 31) + 1, (1 << 32) - 2, 86399, 86400):
        out.add(b)
    if '/' in zone:
        try:
            import zoneinfo
            z = zoneinfo.ZoneInfo(zone)
            # scan for offset changes hour by hour is too slow; use day-level bisection on the grid
            prev_off = None
            t = 0
            stepd = 86400 * 7
            while t < end:
                off = datetime.datetime.fromtimestamp(t, z).utcoffset()
                if prev_off is not None and off != prev_off:
                    lo, hi = t - stepd, t
                    while hi - lo > 1:
                        mid = (lo + hi) // 2
                        if datetime.datetime.fromtimestamp(mid, z).utcoffset() == prev_off:
                            lo = mid
                        else:
                            hi = mid
                    for d in (0, 1, 1799, 1800, 3599, 3600):
                        for s in (-1, 1):
                            x = hi + s * d
                            if 0 <= x <= end - 1:
                                out.add(x)
                prev_off = off
                t += stepd
        except Exception:  # noqa
            pass
    return sorted(x for x in out if 0 <= x < end)


def _ts_worker(args):
    zone, thorough = args
    acc = core.Acc()
    ByteOrder, ComposerBinary, ParserBinary, InvalidValue = _lib()
    import dateutil.tz
    os.environ['TZ'] = zone
    time.tzset()
    utc = datetime.timezone.utc
    other = datetime.timezone(datetime.timedelta(hours=5, minutes=45))
    ztag = 'utc' if zone == 'UTC' else ('fixed' if zone.startswith('Etc/') else 'posix' if ',' in zone else 'dst')

    def comp(value, ms, size):
        c = ComposerBinary()
        c.compose_timestamp(value, milliseconds=ms, item_size=size)
        return bytes(c.composed_bytes)

    for sec in instants(thorough, zone):
        naive = datetime.datetime(1970, 1, 1) + datetime.timedelta(seconds=sec)   # naive value = UTC wall clock
        aware = naive.replace(tzinfo=utc)
        aware2 = aware.astimezone(other)
        for size in (4, 8):
            ref = sec.to_bytes(size, 'big')
            for flavour, dt in (('naive', naive), ('aware_utc', aware), ('aware_other', aware2)):
                acc.counters['transitions'] = acc.counters.get('transitions', 0) + 1
                w = {'kind': 'timestamp', 'zone': zone, 'epoch': sec, 'size': size, 'flavour': flavour, 'ms': False}
                try:
                    got = comp(dt, False, size)
                except Exception as ex:  # noqa
                    acc.violation('timestamp:compose_raises:%s:%s' % (flavour, core.ename(ex)),
                                  'compose_timestamp raises %s under TZ=%s' % (core.ename(ex), zone), w)
                    continue
                if got != ref:
                    delta = int.from_bytes(got, 'big') - sec
                    acc.violation('timestamp:wrong_instant:%s:%s' % (flavour, ztag),
                                  'TZ=%s: %s datetime for epoch %d encoded as %d (off by %d s)'
                                  % (zone, flavour, sec, int.from_bytes(got, 'big'), delta), w)
            # parse back
            acc.counters['transitions'] = acc.counters.get('transitions', 0) + 1
            p = ParserBinary(ref)
            p.parse_timestamp('t', item_size=size)
            back = p['t']
            if back is None or back.tzinfo is None or int((back - datetime.datetime(1970, 1, 1, tzinfo=utc)).total_seconds()) != sec:
                acc.violation('timestamp:parse_wrong:%s' % ztag, 'TZ=%s: epoch %d parses to %r' % (zone, sec, back),
                              {'kind': 'timestamp', 'zone': zone, 'epoch': sec, 'size': size, 'flavour': 'parse',
                               'ms': False})
        # milliseconds (8 bytes), aware and naive
        for ms in (0, 1, 500, 999):
            refms = (sec * 1000 + ms).to_bytes(8, 'big')
            for flavour, dt in (('naive', naive), ('aware_utc', aware)):
                acc.counters['transitions'] = acc.counters.get('transitions', 0) + 1
                dtm = dt + datetime.timedelta(milliseconds=ms)
                w = {'kind': 'timestamp', 'zone': zone, 'epoch': sec, 'size': 8, 'flavour': flavour, 'ms': ms}
                try:
                    got = comp(dtm, True, 8)
                except Exception as ex:  # noqa
                    acc.violation('timestamp:compose_raises:%s:%s' % (flavour, core.ename(ex)),
                                  'compose_timestamp(ms) raises %s' % core.ename(ex), w)
                    continue
                if got != refms:
                    acc.violation('timestamp:wrong_instant_ms:%s:%s' % (flavour, ztag),
                                  'TZ=%s: %s ms-timestamp %d encoded as %d' % (zone, flavour, sec * 1000 + ms,
                                                                               int.from_bytes(got, 'big')), w)
            if ms in (0, 999):
                p = ParserBinary(refms)
                p.parse_timestamp('t', milliseconds=True)
                back = p['t']
                exp = datetime.datetime(1970, 1, 1, tzinfo=utc) + datetime.timedelta(seconds=sec, milliseconds=ms)
                if back != exp:
                    acc.violation('timestamp:parse_wrong_ms:%s' % ztag, 'ms value %d parses to %r' % (sec * 1000 + ms, back),
                                  {'kind': 'timestamp', 'zone': zone, 'epoch': sec, 'size': 8, 'flavour': 'parse',
                                   'ms': ms})
    # the forever sentinel, both widths
    for size, msflag in ((4, False), (8, False), (4, True), (8, True)):
        acc.counters['transitions'] = acc.counters.get('transitions', 0) + 2
        tag = 'w%d%s' % (size, 'ms' if msflag else '')
        w = {'kind': 'timestamp', 'zone': zone, 'epoch': None, 'size': size, 'flavour': 'sentinel', 'ms': msflag}
        try:
            got = comp(None, msflag, size)
            if got != b'\xff' * size:
                acc.violation('timestamp:sentinel_wrong:%s' % tag, 'None composes to %s' % got.hex(), w)
        except Exception as ex:  # noqa
            acc.violation('timestamp:sentinel_raises:%s:%s' % (tag, core.ename(ex)),
                          'compose_timestamp(None, item_size=%d) raises %s' % (size, core.ename(ex)), w)
        p = ParserBinary(b'\xff' * size)
        try:
            p.parse_timestamp('t', milliseconds=msflag, item_size=size)
            back = p['t']
        except Exception as ex:  # noqa
            back = ex
        if back is not None:
            acc.violation('timestamp:sentinel_parse:%s' % tag, 'all-ones (the value None composes to) parses to %r'
                          % (back,), w)
    acc.state(core.h64('tz', zone))
    acc.sample({'zone': zone, 'instants': len(instants(thorough, zone))}, 1)
    return acc.result()


# ---- every class that carries a binary timestamp, under the same process configurations ------------------------------------
def timestamp_sites():
    """[(class qualified name, field, width, milliseconds)] - message classes with a datetime-valued field that travels
    as a big-endian count since the epoch (the primitive above is one way to write it; a class may use its own)."""
    import attr
    from mc import objects, classes
    out = []
    for cls, seeds in sorted(objects.base_seed_objects().items(), key=lambda kv: classes.qualname(kv[0])):
        qn = classes.qualname(cls)
        if qn.startswith('cryptoparser.httpx.') or qn.startswith('cryptoparser.common.field.'):
            continue        # textual dates: C05 / C18
        try:
            fs = attr.fields(type(seeds[0]))
        except Exception:  # noqa
            continue
        for f in fs:
            if isinstance(getattr(seeds[0], f.name, None), datetime.datetime) or (
                    f.name == 'valid_before' and hasattr(seeds[0], 'valid_after')):
                out.append((qn, f.name))
    return out


def _with(seed, field, dt):
    """The seed with field = dt: rebuilt through the constructor where that works (converters of other fields may
    not accept their own output), else a copy with the attribute assigned."""
    import attr
    import copy
    try:
        return attr.evolve(seed, **{field: dt})
    except (TypeError, ValueError):
        o = copy.deepcopy(seed)
        setattr(o, field, dt)
        return o


def _locate(seed, field, naive_ok):
    """(offset, width, unit) of the field's count in the composed bytes, found under TZ=UTC with two probe instants."""
    import attr
    utc = datetime.timezone.utc
    found = None
    for width, unit in ((4, 1), (8, 1), (8, 1000)):
        offs = None
        for sec in (0x21436587, 0x4a5b6c7d):
            dt = datetime.datetime(1970, 1, 1, tzinfo=utc) + datetime.timedelta(seconds=sec)
            try:
                b = bytes(_with(seed, field, dt).compose())
            except Exception:  # noqa
                if not naive_ok:
                    return None
                b = bytes(_with(seed, field, dt.replace(tzinfo=None)).compose())
            needle = (sec * unit).to_bytes(width, 'big')
            here = {i for i in range(len(b) - width + 1) if b[i:i + width] == needle}
            offs = here if offs is None else offs & here
        if offs:
            found = (min(offs), width, unit)
            if width == 4:
                # a 4-octet match inside an 8-octet field: prefer the wider reading when the 4 octets before are zero
                continue
    return found


def _site_worker(args):
    zone, si, thorough = args
    import attr
    from mc import objects, classes
    acc = core.Acc()
    qn, field = timestamp_sites()[si]
    cls = classes.class_by_name(qn)
    seed = objects.base_seed_objects()[cls][0]
    naive_seed = getattr(seed, field) is not None and getattr(seed, field).tzinfo is None
    os.environ['TZ'] = 'UTC'
    time.tzset()
    loc = _locate(seed, field, naive_seed)
    if loc is None:
        acc.sample({'kind': 'site', 'cls': qn, 'field': field, 'skipped': 'count not located in the composed bytes'}, 1)
        return acc.result()
    off, width, unit = loc
    os.environ['TZ'] = zone
    time.tzset()
    utc = datetime.timezone.utc
    other = datetime.timezone(datetime.timedelta(hours=5, minutes=45))
    ztag = 'utc' if zone == 'UTC' else ('fixed' if zone.startswith('Etc/') else 'posix' if ',' in zone else 'dst')
    top = (1 << 32) - 1 if width == 4 else 1 << 33
    heavy = 'Certificate' in qn      # ~1 ms per compose / parse
    step = (29 if thorough else 183) if heavy else (7 if thorough else 29)
    for sec in instants(thorough, zone, step):
        if sec >= top:
            continue
        aware = datetime.datetime(1970, 1, 1, tzinfo=utc) + datetime.timedelta(seconds=sec)
        flavours = [('aware_utc', aware), ('aware_other', aware.astimezone(other))]
        if naive_seed:
            flavours.insert(0, ('naive', aware.replace(tzinfo=None)))
        ref = (sec * unit).to_bytes(width, 'big')
        for flavour, dt in flavours:
            acc.counters['transitions'] = acc.counters.get('transitions', 0) + 1
            w = {'kind': 'site', 'zone': zone, 'cls': qn, 'field': field, 'epoch': sec, 'flavour': flavour}
            try:
                o = _with(seed, field, dt)
            except Exception:  # noqa  (an aware value where only naive ones are accepted, or the reverse: C06/C08 domain)
                continue
            try:
                b = bytes(o.compose())
            except Exception as ex:  # noqa
                acc.violation('site:%s.%s:compose_raises:%s:%s' % (cls.__name__, field, flavour, core.ename(ex)),
                              'TZ=%s: %s with %s=%s cannot be composed' % (zone, cls.__name__, field, dt.isoformat()), w)
                continue
            if b[off:off + width] != ref:
                got = int.from_bytes(b[off:off + width], 'big')
                acc.violation('site:%s.%s:wrong_instant:%s:%s' % (cls.__name__, field, flavour, ztag),
                              'TZ=%s: %s.%s = %s (epoch %d) is written as %d (off by %d)'
                              % (zone, cls.__name__, field, dt.isoformat(), sec, got, got // unit - sec), w)
                continue
            if flavour != 'aware_utc':
                continue
            acc.counters['transitions'] += 1
            try:
                back = getattr(cls.parse_exact_size(b), field)
            except Exception as ex:  # noqa
                acc.violation('site:%s.%s:parse_raises:%s' % (cls.__name__, field, core.ename(ex)),
                              'TZ=%s: the composed %s is rejected' % (zone, cls.__name__), w)
                continue
            if back is None:
                continue        # the all-ones sentinel of a 4-octet field (covered above)
            bu = back if back.tzinfo is not None else back.replace(tzinfo=utc)
            if int((bu - datetime.datetime(1970, 1, 1, tzinfo=utc)).total_seconds()) != sec:
                acc.violation('site:%s.%s:parse_wrong:%s' % (cls.__name__, field, ztag),
                              'TZ=%s: epoch %d in %s.%s parses to %r' % (zone, sec, cls.__name__, field, back), w)
    acc.state(core.h64('site', zone, qn, field))
    if zone == 'UTC':
        acc.sample({'kind': 'site', 'cls': qn, 'field': field, 'offset': off, 'width': width, 'unit': unit}, 1)
    os.environ['TZ'] = 'UTC'
    time.tzset()
    return acc.result()


def run(ctx):
    thorough = not ctx.quick
    items = []
    for width in (1, 2, 3, 4, 8):
        n = len(values_for(width, thorough))
        step = max(4096, n // 16)
        for order in ORDERS:
            for lo in range(0, n, step):
                items.append((width, order, lo, min(n, lo + step), thorough))
    ctx.pmap(_int_worker, items)
    ctx.pmap(_range_worker, [0], nproc=1)
    ctx.pmap(_flag_worker, list(range(len(flag_enums()))))
    parts = 16
    ctx.pmap(_mpint_worker, [(p, parts, thorough) for p in range(parts)])
    ctx.pmap(_sequence_worker, [(p, 16) for p in range(16)])
    ctx.pmap(_ts_worker, [(z, thorough) for z in ZONES])
    sites = timestamp_sites()
    heavy = [si for si, (qn, f) in enumerate(sites) if 'Certificate' in qn]
    if not thorough:
        # quick: one certificate class per format version (they share the code that writes the validity interval)
        keep = {}
        for si in heavy:
            keep.setdefault((''.join(re.findall(r'V0\d', sites[si][0])), sites[si][1]), si)
        heavy = set(heavy) - set(keep.values())
    else:
        heavy = set()
    ctx.pmap(_site_worker, [(z, si, thorough) for si in range(len(sites)) if si not in heavy for z in ZONES])
    ctx.assumptions += [
        'reference: int.to_bytes/int.from_bytes; NATIVE byte order = sys.byteorder (%s)' % sys.byteorder,
        'timestamps: naive datetimes denote UTC wall-clock time (what parse_timestamp produces after '
        'dropping tzinfo and what the suite composes with utcfromtimestamp)',
        'instants: %s-day grid 1970..2106 plus every UTC-offset transition of each zone +-{0,1,1799,1800,3599,3600}s'
        % ('1' if thorough else '7'),
    ]
    return ctx.finish(rule='widths 1-2 all values, width 3 %s, widths 4/8 boundary patterns, x4 byte orders, both '
                           'directions; out-of-range set per width; flag subsets (all 2^n for <=15 members) and all '
                           'words of 1-2 byte flag fields; fixed mpint [0,2^16] x 7 lengths x 4 orders; SSH mpint '
                           '[-2^17,2^17] and +-(2^n+-1), n<=%d; every ordered pair of fields (numeric, SSH mpint, timestamp, raw) '
                           'in one buffer; timestamps under %d TZ settings, through the primitive and '
                           'through every message class with a timestamp field'
                           % ('all 2^24' if thorough else 'all values with <=2 non-zero bytes',
                              4097 if thorough else 1100, len(ZONES)))


def replay(ctx, w):
    k = w['kind']
    if k == 'int':
        vals = values_for(w['width'], True)
        v = w.get('value', w['first'])
        if v is None:
            v = w['first']
        if isinstance(vals, range):
            lo = v
        else:
            lo = vals.index(v)
        res = _int_worker((w['width'], w['order'], lo, lo + 1, True))
    elif k == 'range':
        res = _range_worker(0)
        res = (res[0], [v for v in res[1] if v['witness'].get('width') == w['width']], res[2], res[3])
    elif k in ('flags', 'flagword'):
        for fi, (en, size, order, shift) in enumerate(flag_enums()):
            if en.__name__ == w['enum'] and size == w['size'] and shift == w['shift']:
                res = _flag_worker(fi)
                break
    elif k in ('sshmpint', 'mpint'):
        res = _mpint_worker((0, 1, False)) if k == 'mpint' else None
        if res is None:
            v = int(w['value'], 16)
            acc = core.Acc()
            ByteOrder, ComposerBinary, ParserBinary, InvalidValue = _lib()
            c = ComposerBinary()
            try:
                c.compose_ssh_mpint(v)
                if bytes(c.composed_bytes) != ref_ssh_mpint(v):
                    acc.violation('sshmpint:compose_wrong:%s' % ('neg' if v < 0 else 'nonneg'), 'wrong', w)
            except Exception as ex:  # noqa
                acc.violation('sshmpint:compose_raises:%s:%s' % ('neg' if v < 0 else 'nonneg', core.ename(ex)), 'raises', w)
            try:
                p = ParserBinary(ref_ssh_mpint(v) + b'\xaa')
                p.parse_ssh_mpint('v')
                if p['v'] != v:
                    acc.violation('sshmpint:parse_wrong:%s' % ('neg' if v < 0 else 'nonneg'), 'wrong', w)
            except Exception as ex:  # noqa
                acc.violation('sshmpint:parse_raises:%s:%s' % ('neg' if v < 0 else 'nonneg', core.ename(ex)), 'raises', w)
            res = acc.result()
    elif k == 'sequence':
        res = _sequence_worker((0, 1))
        res = (res[0], [v for v in res[1] if v['witness']['fields'] == w['fields']] or res[1], res[2], res[3])
    elif k == 'site':
        sites = timestamp_sites()
        res = _site_worker((w['zone'], sites.index((w['cls'], w['field'])), True))
    else:
        res = _ts_worker((w['zone'], False))
        os.environ['TZ'] = 'UTC'
        time.tzset()
    return res[1][0] if res[1] else None
