"""C19 - parsing work is bounded linearly by the input size.

Measure: sys.monitoring LINE events (deterministic interpreter-level steps) and maximum Python call depth during
K.parse_immutable(input).  A fixed grid of (class, shape) x sizes n0*2^i is enumerated; wall time is never used.
"""
import sys

from mc import bytefam, classes, core
from mc.props import c02

TOOL = 3
_state = {'steps': 0, 'depth': 0, 'maxdepth': 0, 'on': False}


def _line(code, line):
    _state['steps'] += 1


def _start(code, off):
    d = _state['depth'] + 1
    _state['depth'] = d
    if d > _state['maxdepth']:
        _state['maxdepth'] = d


def _ret(code, off, val):
    _state['depth'] -= 1


def _unwind(code, off, exc):
    _state['depth'] -= 1


def monitor_on():
    if _state['on']:
        return
    mon = sys.monitoring
    try:
        mon.use_tool_id(TOOL, 'verif-c19')
    except ValueError:
        pass
    E = mon.events
    mon.register_callback(TOOL, E.LINE, _line)
    mon.register_callback(TOOL, E.PY_START, _start)
    mon.register_callback(TOOL, E.PY_RETURN, _ret)
    mon.register_callback(TOOL, E.PY_UNWIND, _unwind)
    _state['on'] = True


def measure(cls, data, limit_s=20):
    """-> (steps, max depth, outcome)"""
    monitor_on()
    mon = sys.monitoring
    E = mon.events
    _state['steps'] = 0
    _state['depth'] = 0
    _state['maxdepth'] = 0
    outcome = 'ok'
    try:
        with core.watchdog(limit_s):
            mon.set_events(TOOL, E.LINE | E.PY_START | E.PY_RETURN | E.PY_UNWIND)
            try:
                cls.parse_immutable(data)
            except core.Timeout:
                outcome = 'timeout'
            except RecursionError:
                outcome = 'recursion'
            except BaseException as e:  # noqa
                outcome = core.ename(e)
            finally:
                mon.set_events(TOOL, 0)
    except core.Timeout:
        mon.set_events(TOOL, 0)
        outcome = 'timeout'
    return _state['steps'], _state['maxdepth'], outcome


def cls_by_name(name):
    return [c for c in classes.parse_entry_classes() if c.__name__ == name][0]


def u(n, w):
    return int(n).to_bytes(w, 'big')


def hand_shapes():
    """[(class name, shape id, generator(n) -> bytes, n0)] - hand-written scalable shapes"""
    S = []
    crlf = b'\r\n'
    S += [
        ('HttpHeaderFields', 'many_unknown_fields', lambda n: b'X-A: b\r\n' * n + crlf, 16),
        ('HttpHeaderFields', 'many_known_fields', lambda n: b'Age: 1\r\n' * n + crlf, 16),
        ('HttpHeaderFields', 'one_huge_value', lambda n: b'X-A: ' + b'v' * (8 * n) + crlf + crlf, 16),
        ('HttpHeaderFields', 'no_separator_at_all', lambda n: b'a' * (8 * n), 16),
        ('HttpHeaderFields', 'only_separators', lambda n: crlf * (4 * n), 16),
        ('HttpHeaderFields', 'huge_name_no_colon', lambda n: b'n' * (8 * n) + crlf + crlf, 16),
        ('HttpHeaderFields', 'many_fields_last_bad', lambda n: b'X-A: b\r\n' * n + b'\xff\r\n\r\n', 16),
        ('HttpHeaderFieldValueContentSecurityPolicy', 'many_directives', lambda n: b"; ".join([b"img-src 'self'"] * n), 8),
        ('HttpHeaderFieldValueContentSecurityPolicy', 'many_sources', lambda n: b"default-src " + b" ".join([b"https://a.example"] * n), 8),
        ('HttpHeaderFieldValueContentSecurityPolicy', 'only_separators', lambda n: b';' * (8 * n), 8),
        ('HttpHeaderFieldValueContentSecurityPolicy', 'many_unknown_directives', lambda n: b"; ".join([b"x-unknown a"] * n), 8),
        ('NameValuePairListSemicolonSeparated', 'many_pairs', lambda n: b'; '.join([b'a=b'] * n), 16),
        ('NameValuePairListSemicolonSeparated', 'only_separators', lambda n: b';' * (8 * n), 16),
        ('NameValuePairListSemicolonSeparated', 'only_spaces', lambda n: b' ' * (8 * n), 16),
        ('NameValuePairListSemicolonSeparated', 'one_huge_value', lambda n: b'a=' + b'v' * (8 * n), 16),
        ('NameValuePairListSemicolonSeparated', 'no_equals', lambda n: b'; '.join([b'abc'] * n), 16),
        ('NameValuePairListCommaSeparated', 'many_pairs', lambda n: b', '.join([b'a=b'] * n), 16),
        ('NameValuePairListCommaSeparated', 'separators_and_spaces', lambda n: b' , ' * (3 * n), 16),
        ('HttpHeaderFieldValueCacheControlResponse', 'many_directives', lambda n: b', '.join([b'no-cache'] * n), 16),
        ('HttpHeaderFieldValueCacheControlResponse', 'many_unknown', lambda n: b', '.join([b'x-unknown=1'] * n), 16),
        ('HttpHeaderFieldValueSetCookie', 'many_attributes', lambda n: b'a=b; ' + b'; '.join([b'Secure'] * n), 16),
        ('HttpHeaderFieldValueSetCookie', 'huge_value', lambda n: b'a=' + b'v' * (8 * n), 16),
        ('HttpHeaderFieldValueSTS', 'many_unknown', lambda n: b'max-age=1; ' + b'; '.join([b'x=1'] * n), 16),
        ('DnsRecordTxtValueDmarc', 'many_unknown_tags', lambda n: b'v=DMARC1; p=none; ' + b'; '.join([b'x=1'] * n), 16),
        ('DnsRecordTxtValueSpf', 'many_terms', lambda n: b'v=spf1 ' + b' '.join([b'ip4:1.2.3.4'] * n), 8),
        ('DnsRecordTxtValueSpf', 'only_spaces', lambda n: b'v=spf1' + b' ' * (8 * n), 8),
        ('DnsRecordTxtValueSpf', 'one_huge_term', lambda n: b'v=spf1 include:' + b'a' * (8 * n), 8),
        ('DnsRecordTxtValueSpf', 'many_unknown_modifiers', lambda n: b'v=spf1 ' + b' '.join([b'x=y'] * n), 8),
        ('DnsRecordTxt', 'many_full_strings', lambda n: (b'\xff' + b't' * 255) * max(1, n // 16), 32),
        ('DnsRecordTxt', 'many_empty_strings', lambda n: b'\x00' * (8 * n), 32),
        ('DnsRecordTxt', 'many_one_byte_strings', lambda n: b'\x01a' * (4 * n), 32),
        ('DnsNameUncompressed', 'many_labels', lambda n: b'\x01a' * (4 * n) + b'\x00', 32),
        ('DnsNameUncompressed', 'no_terminator', lambda n: b'\x01a' * (4 * n), 32),
        ('DnsRecordMx', 'many_labels', lambda n: b'\x00\x0a' + b'\x03abc' * (2 * n) + b'\x00', 32),
        ('SshProtocolMessage', 'no_line_feed', lambda n: b'SSH-2.0-' + b's' * (8 * n), 16),
        ('SshProtocolMessage', 'many_spaces', lambda n: b'SSH-2.0-x' + b' c' * (4 * n) + b'\r\n', 16),
        ('SshKexAlgorithmVector', 'many_unknown_names', lambda n: u(4 * n - 1, 4) + b','.join([b'abc'] * n), 16),
        ('SshKexAlgorithmVector', 'many_known_names', lambda n: u(18 * n - 1, 4) + b','.join([b'curve25519-sha256'] * n), 8),
        ('SshKexAlgorithmVector', 'only_commas', lambda n: u(8 * n, 4) + b',' * (8 * n), 16),
        ('SshKexAlgorithmVector', 'one_huge_name', lambda n: u(8 * n, 4) + b'a' * (8 * n), 16),
        ('SshEncryptionAlgorithmVector', 'many_unknown_names', lambda n: u(4 * n - 1, 4) + b','.join([b'abc'] * n), 16),
        ('SshCertValidPrincipals', 'many_principals', lambda n: u(6 * n, 4) + (u(2, 4) + b'ab') * n, 16),
        ('SshCertExtensionVector', 'many_unknown_extensions', lambda n: u(13 * n, 4) + (u(5, 4) + b'x@y.z' + u(0, 4)) * n, 16),
        ('SshCertExtensionVector', 'many_known_extensions', lambda n: u(18 * n, 4) + (u(10, 4) + b'permit-pty' + u(0, 4)) * n, 16),
        ('TlsCipherSuiteVector', 'many_known', lambda n: u(2 * n, 2) + b'\x00\x2f' * n, 64),
        ('TlsCipherSuiteVector', 'many_unknown', lambda n: u(2 * n, 2) + b'\xee\xee' * n, 64),
        ('TlsCipherSuiteVector', 'many_grease', lambda n: u(2 * n, 2) + b'\x0a\x0a' * n, 64),
        ('TlsExtensionsClient', 'many_unknown_extensions', lambda n: u(5 * n, 2) + (b'\xee\xee\x00\x01x') * n, 32),
        ('TlsExtensionsClient', 'many_known_empty_extensions', lambda n: u(4 * n, 2) + (b'\x00\x17\x00\x00') * n, 32),
        ('TlsExtensionsClient', 'one_huge_unknown', lambda n: u(4 + 8 * n, 2) + b'\xee\xee' + u(8 * n, 2) + b'x' * (8 * n), 32),
        ('TlsExtensionsClient', 'many_failing_late', lambda n: u(6 * n, 2) + (b'\x00\x0b\x00\x02\x01\x00') * n, 32),
        ('TlsExtensionsServer', 'many_unknown_extensions', lambda n: u(5 * n, 2) + (b'\xee\xee\x00\x01x') * n, 32),
        ('TlsCertificates', 'many_small_certificates', lambda n: u(4 * n, 3) + (b'\x00\x00\x01c') * n, 64),
        ('TlsCertificates', 'one_huge_certificate', lambda n: u(3 + 16 * n, 3) + u(16 * n, 3) + b'c' * (16 * n), 64),
        ('TlsDistinguishedNameVector', 'many_names', lambda n: u(3 * n, 2) + (b'\x00\x01d') * n, 64),
        ('TlsRecord', 'huge_fragment', lambda n: b'\x16\x03\x03' + u(min(16 * n, 65535), 2) + b'f' * min(16 * n, 65535), 64),
        ('TlsEllipticCurveVector', 'many_groups', lambda n: u(2 * n, 2) + b'\x00\x1d' * n, 64),
        ('TlsSignatureAndHashAlgorithmVector', 'many_unknown', lambda n: u(2 * n, 2) + b'\xee\xee' * n, 64),
        ('TlsKeyShareEntryVector', 'many_entries', lambda n: u(5 * n, 2) + (b'\x00\x1d\x00\x01k') * n, 32),
        ('TlsProtocolNameList', 'many_names', lambda n: u(3 * n, 2) + (b'\x02h2') * n, 32),
        ('SignedCertificateTimestampList', 'many_broken_scts', lambda n: u(3 * n, 2) + (b'\x00\x01x') * n, 32),
        ('MySQLHandshakeV10', 'huge_server_version', lambda n: b'\x0a' + b'v' * (8 * n) + b'\x00' + b'\x00' * 40, 16),
        ('MySQLHandshakeV10', 'no_nul_terminator', lambda n: b'\x0a' + b'v' * (8 * n), 16),
        ('OpenVpnPacketAckV1', 'many_acks', lambda n: b'\x28' + b'\x00' * 8 + bytes((min(n, 255),)) + b'\x00\x00\x00\x01' * min(n, 255) + b'\x00' * 8, 8),
        ('LDAPExtendedResponseStartTLS', 'huge_diagnostic', lambda n: _ldap_big(8 * n), 16),
        ('SslRecord', 'many_cipher_kinds', lambda n: _ssl2_hello(min(n, 5000)), 32),
        ('TlsHandshakeClientHello', 'many_suites', lambda n: _client_hello(n, 0), 32),
        ('TlsHandshakeClientHello', 'many_extensions', lambda n: _client_hello(1, n), 32),
        # items the parser treats specially: signalling suites (00ff, 5600), GREASE and unassigned codes
        ('TlsHandshakeClientHello', 'many_scsv', lambda n: _client_hello_suites([0x00ff, 0x5600] * (n // 2)), 32),
        ('TlsHandshakeClientHello', 'half_scsv', lambda n: _client_hello_suites([0x002f] * (n // 2) + [0x00ff, 0x5600] * (n // 4)), 32),
        ('TlsHandshakeClientHello', 'scsv_first', lambda n: _client_hello_suites([0x5600, 0x00ff] * (n // 4) + [0x002f] * (n // 2)), 32),
        ('TlsHandshakeClientHello', 'many_grease_suites', lambda n: _client_hello_suites([0x0a0a, 0x1a1a] * (n // 2)), 32),
        ('TlsHandshakeClientHello', 'many_unassigned_suites', lambda n: _client_hello_suites([0xeeee] * n), 32),
        ('TlsHandshakeClientHello', 'many_sni_extensions', lambda n: _client_hello_exts([(0, b'\x00\x04\x00\x00\x01a')] * n), 32),
        ('TlsHandshakeClientHello', 'many_grease_extensions', lambda n: _client_hello_exts([(0x0a0a, b'')] * n), 32),
        ('SshKeyExchangeInit', 'many_names_in_every_list', lambda n: _kexinit(n), 4),
    ]
    # maximal declared count / length with (almost) no data: steps must not depend on the declared value
    S += [
        ('TlsCipherSuiteVector', 'declared_only', lambda n: u(min(2 * n, 65534), 2) + b'\x00\x2f', 64),
        ('TlsCertificates', 'declared_only', lambda n: u(min(16 * n, 2 ** 24 - 1), 3) + b'\x00\x00\x01c', 4096),
        ('TlsExtensionsClient', 'declared_only', lambda n: u(min(2 * n, 65535), 2) + b'\x00\x17\x00\x00', 64),
        ('SshKexAlgorithmVector', 'declared_only', lambda n: u(min(n * 65536, 2 ** 32 - 1), 4) + b'abc', 64),
        ('SshHostKeyRSA', 'declared_mpint_length', lambda n: u(7, 4) + b'ssh-rsa' + u(min(n * 65536, 2 ** 32 - 1), 4) + b'\x01', 64),
        ('SshCertValidPrincipals', 'declared_only', lambda n: u(min(n * 65536, 2 ** 32 - 4), 4) + u(2, 4) + b'ab', 64),
        ('OpenVpnPacketAckV1', 'declared_only', lambda n: b'\x28' + b'\x00' * 8 + bytes((min(n, 255),)) + b'\x00' * 4, 4),
        ('DnsRecordTxt', 'declared_only', lambda n: bytes((min(n, 255),)) + b'a', 4),
        ('TlsRecord', 'declared_only', lambda n: b'\x16\x03\x03' + u(min(n * 16, 65535), 2) + b'f', 64),
        ('MySQLRecord', 'declared_only', lambda n: min(n * 1024, 2 ** 24 - 1).to_bytes(3, 'little') + b'\x00p', 64),
        ('TPKT', 'declared_only', lambda n: b'\x03\x00' + u(min(n * 16, 65535), 2) + b't', 64),
        ('SshRecordInit', 'declared_only', lambda n: u(min(n * 65536, 2 ** 32 - 1), 4) + b'\x04\x15', 64),
        ('SslRecord', 'declared_cipher_kinds', lambda n: _ssl2_declared(min(n * 3, 65535)), 64),
    ]
    return S


def _ldap_big(n):
    from mc.ref import misc_ref
    return misc_ref.ldap_starttls_response(0, 1, b'', b'd' * n)


def _ssl2_hello(n):
    from mc.ref import tls_ref
    body = tls_ref.ssl2_client_hello([0x010080] * n, b'', b'c' * 16)
    return tls_ref.ssl2_record(body) if len(body) < 32768 else tls_ref.ssl2_record(body[:32000])


def _ssl2_declared(k):
    body = b'\x01\x00\x02' + u(k, 2) + u(0, 2) + u(16, 2) + b'\x01\x00\x80' + b'c' * 16
    return bytes((0x80 | (len(body) >> 8), len(body) & 0xff)) + body


def _client_hello(nsuites, nexts):
    from mc.ref import tls_ref
    exts = [(0xeeee, b'x')] * nexts if nexts else None
    return tls_ref.client_hello(0x0303, 0, bytes(28), b'', [0x002f] * nsuites, [0], exts)


def _client_hello_suites(suites):
    from mc.ref import tls_ref
    return tls_ref.client_hello(0x0303, 0, bytes(28), b'', suites[:32766], [0], None)


def _client_hello_exts(exts):
    from mc.ref import tls_ref
    return tls_ref.client_hello(0x0303, 0, bytes(28), b'', [0x002f], [0], exts[:6000])


def _kexinit(n):
    from mc.ref import ssh_ref
    lists = [['abc'] * n for _ in range(8)] + [[], []]
    return ssh_ref.kexinit(bytes(16), lists)


def generic_vector_shapes():
    """For every vector class with an item alphabet: n copies of an item under a recomputed prefix."""
    from mc.props import c12
    out = []
    for cls in c12.vector_classes():
        if not cls.__module__.startswith('cryptoparser.'):
            continue
        try:
            items = c12.item_alphabet(cls)
            param = cls.get_param()
        except Exception:  # noqa
            continue
        w = param.item_num_size
        if not w or not items or cls.__name__ == 'TlsHandshakeHelloRandomBytes':
            continue
        picks = []
        for it in (items[0], items[len(items) // 2], items[-1]):    # first, middle and last alphabet item
            if not any(it is p or it == p for p in picks):
                picks.append(it)
        for k, it in enumerate(picks):
            try:
                wire1 = bytes(cls([it]).compose())
            except Exception:  # noqa
                continue
            body = wire1[w:]
            if not body:
                continue
            maxn = param.max_byte_num // len(body)
            if maxn < 64:
                continue
            sep = b',' if hasattr(param, 'separator') else b''

            def gen(n, body=body, w=w, maxn=maxn, sep=sep):
                k = min(n, maxn if not sep else maxn // 2)
                b = sep.join([body] * k)
                return len(b).to_bytes(w, 'big') + b
            out.append((cls.__name__, 'generic_repeat_item' if k == 0 else 'generic_repeat_item_%d' % k, gen, 16))
    return out


def auto_text_shapes():
    """For every list-valued text type: each distinct element of each seed of the type, repeated n times (so every
    term / directive / attribute kind the seeds contain becomes a 'many items' shape of its own)."""
    from mc.props import c18
    out = []
    specs = [(t[0], t[1], t[2]) for t in c18.TYPES] + [('HttpHeaderFields', '\r\n', 0)]
    for cname, sep, fixed in specs:
        cls = [c for c in classes.parsable_classes() if c.__name__ == cname]
        if not cls:
            continue
        qn = classes.qualname(cls[0])
        seen = []
        for seed in c02.seeds_of(qn):
            try:
                text = seed.decode('ascii')
            except UnicodeDecodeError:
                continue
            els = [e.strip(' \t') for e in text.split(sep)] if sep != ' ' else text.split(' ')
            els = [e for e in els if e]
            prefix = els[:fixed]
            for e0 in els[fixed:]:
                # the element as it is, and cut before each optional suffix (so that 'a:example.com/32/128' also
                # yields 'a:example.com' - optional parts change which separator ends an item)
                cands = [e0] + [e0.split(ch)[0] for ch in '/=:' if ch in e0 and e0.split(ch)[0]]
                for e in cands:
                    if e not in [x[1] for x in seen] and len(seen) < 24:
                        seen.append((prefix, e))
        for k, (prefix, e) in enumerate(seen):
            joiner = sep + ' ' if sep not in (' ', '\r\n') else sep
            tail = '\r\n\r\n' if sep == '\r\n' else ''

            def gen(n, prefix=prefix, e=e, joiner=joiner, tail=tail):
                return (joiner.join(prefix + [e] * n) + tail).encode('ascii')
            label = 'many_' + ''.join(ch if ch.isalnum() else '_' for ch in e.split('=')[0].split(':')[0])[:24] + '_%d' % k
            out.append((cname, label, gen, 8))
    return out


def all_shapes():
    have = set()
    out = []
    names = {c.__name__ for c in classes.parse_entry_classes()}
    for s in hand_shapes() + generic_vector_shapes() + auto_text_shapes():
        if s[0] in names and (s[0], s[1]) not in have:
            have.add((s[0], s[1]))
            out.append(s)
    return out


def _shape_worker(args):
    si, levels = args
    acc = core.Acc()
    cname, shape, gen, n0 = all_shapes()[si]
    cls = cls_by_name(cname)
    rows = []
    for i in range(levels):
        n = n0 * (2 ** i)
        try:
            data = gen(n)
        except (OverflowError, ValueError):     # the shape has reached the largest size its length fields can express
            acc.count('shapes_stopped_at_field_maximum')
            break
        steps, depth, outcome = measure(cls, data, 40)
        rows.append((n, len(data), steps, depth, outcome))
        acc.counters['transitions'] = acc.counters.get('transitions', 0) + 1
        acc.state(core.h64(cname, shape, n))
        if outcome == 'recursion':
            acc.violation('%s:%s:%s' % (cname, shape, outcome), '%s on %s/%s with %d input bytes' % (outcome, cname, shape, len(data)),
                          {'kind': 'shape', 'cls': cname, 'shape': shape, 'rows': rows})
            return acc.result()
        if outcome == 'timeout':
            # the wall-clock limit of one measurement depends on machine load; the property is about *steps*: the
            # steps counted until the limit are judged by the growth clauses below like any other row, and the size
            # is reported as not fully measured
            acc.count('measurements_cut_by_time_limit')
            break
    w = {'kind': 'shape', 'cls': cname, 'shape': shape, 'rows': rows}
    if len(rows) < 2:
        return acc.result()
    if shape.startswith('declared'):
        base = rows[0][2]
        for n, ln, steps, depth, outcome in rows[1:]:
            if steps > 1.25 * base + 300:
                acc.violation('%s:%s:work_follows_declared_value' % (cname, shape),
                              'steps grow with the declared count/length although the data does not: %s'
                              % [(r[0], r[2]) for r in rows], w)
                break
    else:
        # growth against the line through the two smallest sizes (sizes measured in input bytes)
        (x0, y0), (x1, y1) = (rows[0][1], rows[0][2]), (rows[1][1], rows[1][2])
        slope = max((y1 - y0) / max(x1 - x0, 1), 0.0)
        for n, ln, steps, depth, outcome in rows[2:]:
            line = y0 + slope * (ln - x0)
            if steps > 1.5 * line + 2000:
                acc.violation('%s:%s:superlinear' % (cname, shape), 'steps exceed 1.5 x the linear extrapolation: sizes/steps %s'
                              % [(r[1], r[2]) for r in rows], w)
                break
        if len(rows) >= 3 and rows[-2][2] > 5000 and rows[-1][1] > rows[-2][1]:
            ratio = rows[-1][2] / max(rows[-2][2], 1)
            size_ratio = rows[-1][1] / max(rows[-2][1], 1)
            if ratio > 1.3 * size_ratio and ratio > 2.6:
                acc.violation('%s:%s:doubling_ratio' % (cname, shape), 'doubling the input multiplies the steps by %.2f: %s'
                              % (ratio, [(r[1], r[2]) for r in rows]), w)
    d0 = rows[0][3]
    for n, ln, steps, depth, outcome in rows[1:]:
        if depth > d0 + 4:
            acc.violation('%s:%s:depth_grows' % (cname, shape), 'call depth grows with the input: %s'
                          % [(r[1], r[3]) for r in rows], w)
            break
    acc.sample({'cls': cname, 'shape': shape, 'bytes_steps_depth': [(r[1], r[2], r[3]) for r in rows]}, 1)
    return acc.result()


def _fuzz_worker(args):
    qn, thorough = args
    acc = core.Acc()
    cls = classes.class_by_name(qn)
    seeds = c02.all_seeds(qn)
    if not seeds:
        return acc.result()
    cal = []
    for s in seeds:
        steps, depth, outcome = measure(cls, s)
        cal.append((steps, len(s), depth))
    # the per-class constant cost of rejection paths (e.g. a full scan of a code table for an unknown code) is
    # calibrated on the exhaustive short strings of the class
    for tag, data in bytefam.i5_short(seeds, False):
        if len(data) <= 2:
            steps, depth, outcome = measure(cls, data)
            cal.append((steps, max(len(data), 1), depth))
    maxsteps = max(c[0] for c in cal)
    C = 4.0 * max(c[0] / max(c[1], 1) for c in cal[:len(seeds)])
    D = 4.0 * maxsteps + 2000
    maxdepth = max(c[2] for c in cal)
    for s in seeds:
        gens = [bytefam.i1_truncations(s)]
        if thorough or len(s) <= 64:
            gens.append(bytefam.i2_substitutions(s, False))
        else:
            gens.append(((t, d) for k, (t, d) in enumerate(bytefam.i2_substitutions(s, False)) if k % 7 == 0))
        for gen in gens:
            for tag, data in gen:
                steps, depth, outcome = measure(cls, data)
                acc.counters['transitions'] = acc.counters.get('transitions', 0) + 1
                w = {'kind': 'fuzz', 'cls': qn, 'data': data, 'family': tag, 'steps': steps, 'bound': int(C * len(data) + D)}
                if outcome in ('timeout', 'recursion'):
                    acc.violation('%s:fuzz:%s' % (cls.__name__, outcome), '%s on a mutated seed' % outcome, w)
                elif steps > C * len(data) + D:
                    acc.violation('%s:fuzz:steps_exceed_calibrated_bound' % cls.__name__,
                                  '%d steps on a %d-byte mutated input; 4x the seed-calibrated bound is %d'
                                  % (steps, len(data), int(C * len(data) + D)), w)
                elif depth > maxdepth + 12:
                    acc.violation('%s:fuzz:depth' % cls.__name__, 'call depth %d on a mutated input (seeds: %d)'
                                  % (depth, maxdepth), w)
        acc.state(core.h64('fuzz', qn, s))
    return acc.result()


def run(ctx):
    levels = 6 if ctx.quick else 9
    shapes = all_shapes()
    ctx.notes['shapes'] = len(shapes)
    ctx.pmap(_shape_worker, [(i, levels) for i in range(len(shapes))])
    fitems = [(classes.qualname(c), not ctx.quick) for c in classes.parse_entry_classes()]
    ctx.pmap(_fuzz_worker, fitems)
    if ctx.counters.get('measurements_cut_by_time_limit'):
        ctx.cap('%d size rows cut by the 40 s wall-clock limit of one measurement (their steps up to the cut were '
                'judged; larger sizes of those shapes were not run)' % ctx.counters['measurements_cut_by_time_limit'])
    ctx.assumptions += ['a step is one sys.monitoring LINE event; work inside a single C-level call (slicing, bytes() '
                        'copies) is not counted - by the property\'s own definition of a step',
                        'finite grid: growth that only appears above the largest enumerated size is not seen',
                        'fuzzed inputs: bound calibrated per class as 4x the maximum over that class\'s seeds']
    return ctx.finish(rule='%d (class, shape) pairs (hand-written text/vector shapes, generic repeat-an-item shapes for '
                           'every vector class, declared-count-with-no-data shapes) x %d sizes n0*2^i; plus every truncation '
                           'and single-byte substitution of every seed of every class step-counted against a '
                           'seed-calibrated linear bound' % (len(shapes), levels))


def replay(ctx, w):
    if w['kind'] == 'shape':
        for i, s in enumerate(all_shapes()):
            if s[0] == w['cls'] and s[1] == w['shape']:
                res = _shape_worker((i, len(w['rows'])))
                return res[1][0] if res[1] else None
        return None
    cls = classes.class_by_name(w['cls'])
    res = _fuzz_worker((w['cls'], False))
    return res[1][0] if res[1] else None
