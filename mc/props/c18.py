"""C18 - insignificant spelling of text fields never changes what is parsed.

For each listed type: semantic values = objects within one deviation of the seeds; canonical text = compose();
spellings = deviation-bounded product (<= 2 rows varied at once, 3 thorough) of the variation rows below, each a
variation the governing RFC declares insignificant for that type; oracle: parse(variant) == parse(canonical).
"""
import itertools
import json
import os
import sys

from mc import canon, classes, core, objects

# (class name, separator, number of leading elements whose position is fixed, rows, clause)
# rows: case      - letter case of directive / attribute / tag names
#       ws        - optional whitespace around the list separator
#       ws_eq     - optional whitespace around '=' between name and value
#       empty     - empty list elements (doubled / leading / trailing separator)
#       trailing  - one trailing separator
#       order     - order of the (non-fixed) elements
#       quote     - token value written as quoted-string
#       unknown   - an unknown directive / attribute / tag added
TYPES = [
    ('HttpHeaderFieldValueSTS', ';', 0, ('case', 'ws', 'ws_eq', 'empty', 'order', 'quote:max-age', 'unknown'),
     'RFC 6797 s6.1: directive names case-insensitive, order not significant, [ directive ] may be empty, '
     'directive-value = token | quoted-string, unrecognised directives ignored; the ABNF is RFC 2616\'s with its '
     'implied *LWS between words and separators (s2.1), so white space around "=" is not significant'),
    ('HttpHeaderFieldValueExpectStaple', ';', 0, ('case', 'ws', 'ws_eq', 'order', 'unknown'),
     'same grammar as RFC 6797 s6.1'),
    ('HttpHeaderFieldValueExpectCT', ',', 0, ('case', 'ws', 'empty', 'order', 'unknown'),
     'RFC 9163 s2.1: #directive list (RFC 7230 s7: OWS and empty elements), names case-insensitive, order not '
     'significant, unknown directives ignored'),
    ('HttpHeaderFieldValuePublicKeyPinning', ';', 0, ('case', 'ws', 'ws_eq', 'order', 'quote:max-age', 'unknown'),
     'RFC 7469 s2.1: directive names case-insensitive, order not significant, unknown directives ignored, '
     'directive-value = token / quoted-string; white space as in RFC 6797'),
    ('HttpHeaderFieldValueCacheControlResponse', ',', 0, ('case', 'ws', 'empty', 'order', 'quote:max-age', 'unknown'),
     'RFC 7234 s5.2: directives case-insensitive, #list; argument as token or quoted-string; unknown ignored'),
    ('HttpHeaderFieldValueSetCookie', ';', 1, ('case', 'ws', 'ws_eq', 'order', 'unknown'),
     'RFC 6265 s5.2: attribute names case-insensitive, WSP around name and value trimmed, unknown attributes ignored'),
    ('HttpHeaderFieldValueContentType', ';', 1, ('case', 'ws', 'quote:charset'),
     'RFC 7231 s3.1.1.1: parameter names case-insensitive, OWS ";" OWS, value token or quoted-string'),
    ('HttpHeaderFieldValueXXSSProtection', ';', 1, ('ws',), 'de-facto: "1; mode=block" with optional spaces'),
    ('HttpHeaderFieldValueContentSecurityPolicy', ';', 0, ('case', 'ws', 'ws_inner', 'empty', 'order'),
     'CSP3 s2.2.1: directive names ASCII case-insensitive, leading/trailing whitespace stripped, empty directives '
     'skipped; distinct directives are independent'),
    ('DnsRecordTxtValueDmarc', ';', 2, ('ws', 'ws_eq', 'trailing', 'order', 'unknown'),
     'RFC 7489 s6.4: dmarc-sep = *WSP ";" *WSP, *WSP "=" *WSP, optional trailing separator, tags after v and p in '
     'any order, unknown tags ignored (s6.3)'),
    ('DnsRecordTxtValueMtaSts', ';', 1, ('ws', 'trailing'), 'RFC 8461 s3.1: sts-field-delim = *WSP ";" *WSP, optional '
                                                           'trailing delimiter'),
    ('DnsRecordTxtValueTlsRpt', ';', 1, ('ws', 'trailing'), 'RFC 8460 s3: field-delim = *WSP ";" *WSP, optional trailing'),
    ('DnsRecordTxtValueSpf', ' ', 1, ('case_spf', 'ws_spf'), 'RFC 7208 s4.6.1: mechanism and modifier names are '
                                                             'case-insensitive; s4.6.1 terms = *( 1*SP term )'),
]

def _tail_upper(s):
    """Only the last '-' / '_' separated segment in upper case ('script-src-ELEM'): a name that extends another name
    keeps the shorter name's exact spelling as a prefix."""
    i = max(s.rfind('-'), s.rfind('_'))
    return s[:i + 1].lower() + s[i + 1:].upper()


CASES = (str.lower, str.upper, str.title, lambda s: ''.join(c.upper() if i % 2 else c.lower() for i, c in enumerate(s)),
         _tail_upper, lambda s: s[:1].upper() + s[1:].lower(), lambda s: s[:-1].lower() + s[-1:].upper())
WS = ('', ' ', '  ', '\t')


def split_top(text, sep):
    """Split at separators that are not inside a quoted string."""
    parts, cur, q = [], '', False
    for ch in text:
        if ch == '"':
            q = not q
        if ch == sep and not q:
            parts.append(cur)
            cur = ''
        else:
            cur += ch
    parts.append(cur)
    return [p.strip(' \t') for p in parts]


def name_of(el):
    for i, ch in enumerate(el):
        if ch in '= ':
            return el[:i], el[i:]
    return el, ''


def variants_of(text, sep, fixed, rows, max_rows):
    """Yields (row ids, variant text).  Each row contributes a small alphabet of alternatives; <= max_rows rows are
    varied at once (deviation-bounded product)."""
    els = [e for e in split_top(text, sep) if e != ''] if sep != ' ' else text.split(' ')
    if not els:
        return
    joiner = sep + ' ' if sep != ' ' else ' '
    alternatives = {}   # row id -> list of functions (els, joiner) -> (els, joiner, lead, trail)

    def ident(e, j):
        return list(e), j, '', ''
    for row in rows:
        alts = []
        if row == 'case':
            for f in CASES:
                def fcase(e, j, f=f):
                    out = []
                    for k, x in enumerate(e):
                        if k < fixed:
                            out.append(x)
                            continue
                        n, rest = name_of(x)
                        out.append(f(n) + rest)
                    return out, j, '', ''
                alts.append(fcase)
        elif row == 'case_spf':
            for f in CASES:
                def fspf(e, j, f=f):
                    out = [e[0]]
                    for x in e[1:]:
                        q = x[0] if x and x[0] in '+-~?' else ''
                        body = x[len(q):]
                        cut = min([body.index(c) for c in ':/=' if c in body] or [len(body)])
                        out.append(q + f(body[:cut]) + body[cut:])
                    return out, j, '', ''
                alts.append(fspf)
        elif row == 'ws':
            for a, b in itertools.product(WS, WS):
                if (a, b) == ('', ' '):
                    continue
                alts.append(lambda e, j, a=a, b=b: (list(e), a + sep + b, '', ''))
        elif row == 'ws_inner':
            # runs of ASCII white space between the members of one element's value list (CSP3 s2.2.1 / s2.3.1:
            # required-ascii-whitespace = 1*( HTAB / SP ...))
            for filler in ('  ', '   ', ' \t'):
                def finner(e, j, filler=filler):
                    return [x.replace(' ', filler) if k >= fixed else x for k, x in enumerate(e)], j, '', ''
                alts.append(finner)
        elif row == 'ws_spf':
            for n in (2, 3):
                alts.append(lambda e, j, n=n: (list(e), ' ' * n, '', ''))
            alts.append(lambda e, j: (list(e), j, '', ' '))
        elif row == 'ws_eq':
            for a, b in ((' ', ''), ('', ' '), (' ', ' '), ('\t', '')):
                def feq(e, j, a=a, b=b):
                    out = []
                    for k, x in enumerate(e):
                        if k < fixed or '=' not in x:
                            out.append(x)
                            continue
                        n, _, v = x.partition('=')
                        out.append(n + a + '=' + b + v)
                    return out, j, '', ''
                alts.append(feq)
        elif row == 'empty':
            alts.append(lambda e, j: (list(e), sep + ' ' + sep + ' ', '', ''))
            alts.append(lambda e, j: (list(e), j, sep + ' ', ''))
            alts.append(lambda e, j: (list(e), j, '', sep))
            alts.append(lambda e, j: (list(e), j, '', ' ' + sep + ' ' + sep))
        elif row == 'trailing':
            alts.append(lambda e, j: (list(e), j, '', sep))
            alts.append(lambda e, j: (list(e), j, '', ' ' + sep + ' '))
        elif row == 'order':
            tail = list(range(fixed, len(els)))
            perms = list(itertools.permutations(tail)) if len(tail) <= 4 else \
                [tuple(tail[:a] + [tail[b]] + tail[a + 1:b] + [tail[a]] + tail[b + 1:]) for a in range(len(tail))
                 for b in range(a + 1, len(tail))]
            for p in perms:
                if list(p) == tail:
                    continue
                alts.append(lambda e, j, p=p: (e[:fixed] + [e[k] for k in p], j, '', ''))
        elif row.startswith('quote:'):
            target = row.split(':', 1)[1]

            def fq(e, j, target=target):
                out = []
                for x in e:
                    n, _, v = x.partition('=')
                    bare = v.lstrip(' \t')
                    if n.strip(' \t').lower() == target and bare and not bare.startswith('"'):
                        # white space another row put after "=" stays outside the quotes
                        out.append('%s=%s"%s"' % (n, v[:len(v) - len(bare)], bare))
                    else:
                        out.append(x)
                return out, j, '', ''
            alts.append(fq)
        elif row == 'unknown':
            for pos in range(fixed, len(els) + 1):
                for unk in ('x-verif-unknown', 'x-verif-unknown=1', 'x-verif-unknown="a"', 'x-verif-unknown="a=1"',
                            'x-verif-unknown="a=1%s b=2"' % sep):
                    alts.append(lambda e, j, pos=pos, unk=unk: (e[:pos] + [unk] + e[pos:], j, '', ''))
        if alts:
            alternatives[row] = alts
    row_ids = list(alternatives)
    seen = set()
    for k in range(1, max_rows + 1):
        for combo in itertools.combinations(row_ids, k):
            for choice in itertools.product(*[range(len(alternatives[r])) for r in combo]):
                e, j, lead, trail = list(els), joiner, '', ''
                for r, ci in zip(combo, choice):
                    e, j2, l2, t2 = alternatives[r][ci](e, j)
                    if j2 != j:
                        j = j2
                    lead = lead or l2
                    trail = trail or t2
                v = lead + j.join(e) + trail
                if v != text and v not in seen:
                    seen.add(v)
                    yield combo, v


class RowAttribution(object):
    """A failure of a multi-row spelling is attributed to the row that already fails the same way on its own."""

    def __init__(self):
        self.by_row = {}

    def rows_for(self, combo, key):
        for r in combo:
            if key in self.by_row.get(r, ()):
                return (r,)
        if len(combo) == 1:
            self.by_row.setdefault(combo[0], set()).add(key)
        return combo


def _type_worker(args):
    ti, idx, max_rows, cap, chunk, nchunks = args
    acc = core.Acc()
    attribution = RowAttribution()
    cname, sep, fixed, rows, clause = TYPES[ti]
    cls = [c for c in classes.parsable_classes() if c.__name__ == cname][0]
    qn = classes.qualname(cls)
    seeds = objects.seed_objects().get(cls, [])
    if idx >= len(seeds):
        return acc.result()
    nvar = 0
    try:
        with core.watchdog(1500):
            vi = -1
            for path, o, stats in objects.neighbourhood(seeds[idx], 1, False, 240):
                vi += 1
                if vi % nchunks != chunk:
                    continue
                try:
                    c = bytes(o.compose())
                    base = cls.parse_exact_size(c)
                    text = c.decode('ascii')
                except Exception:  # noqa (C01)
                    continue
                d0 = canon.dump(base, eq=True)
                acc.state(core.h64(qn, c))
                n_here = 0
                for combo, v in variants_of(text, sep, fixed, rows, max_rows):
                    n_here += 1
                    if n_here > cap:
                        acc.count('capped_values')
                        break
                    acc.counters['transitions'] = acc.counters.get('transitions', 0) + 1
                    w = {'kind': 'spelling', 'cls': qn, 'canonical': text, 'variant': v, 'rows': list(combo)}
                    try:
                        got = cls.parse_exact_size(v.encode('ascii'))
                    except Exception as e:  # noqa
                        rows_ = attribution.rows_for(combo, ('rejected', core.ename(e)))
                        acc.violation('spelling:%s:%s:rejected:%s' % (cname, '+'.join(rows_), core.ename(e)),
                                      '%s spelling %r of %r is rejected (%s)' % (cname, v, text, core.ename(e)), w)
                        continue
                    d1 = canon.dump(got, eq=True)
                    if d1 != d0:
                        leaf = canon.generic_path_leaf(d0, d1)
                        rows_ = attribution.rows_for(combo, ('differs', leaf))
                        acc.violation('spelling:%s:%s:differs:%s' % (cname, '+'.join(rows_), leaf),
                                      '%s spelling %r parses differently from %r (at %s)'
                                      % (cname, v, text, canon.first_diff(d0, d1)), w)
                nvar += n_here
    except core.Timeout:
        # a budget of this harness, not a clause of the property: the item is reported as cut, the run as capped
        acc.count('work_items_cut_by_watchdog')
        acc.sample({'cut_by_watchdog': qn, 'seed': idx, 'chunk': chunk, 'seconds': 1500}, 3)
    if idx == 0 and chunk == 0:
        acc.sample({'kind': 'spelling', 'cls': qn, 'rows': list(rows), 'clause': clause}, 1)
    return acc.result()


def _nel_worker(_):
    """NEL is a JSON object: member order and insignificant whitespace (RFC 8259 s2, s4)."""
    acc = core.Acc()
    cls = [c for c in classes.parsable_classes() if c.__name__ == 'HttpHeaderFieldValueNetworkErrorLogging'][0]
    qn = classes.qualname(cls)
    for seed in objects.seed_objects().get(cls, []):
        for path, o, stats in objects.neighbourhood(seed, 1, False, 200):
            try:
                c = bytes(o.compose())
                base = cls.parse_exact_size(c)
                obj = json.loads(c.decode('ascii'))
            except Exception:  # noqa
                continue
            d0 = canon.dump(base, eq=True)
            items = list(obj.items())
            perms = list(itertools.permutations(items)) if len(items) <= 4 else [items[::-1], items[1:] + items[:1]]
            for p in perms:
                for seps in ((',', ':'), (', ', ': '), (' , ', ' : '), (',\t', ':\t')):
                    for pad in ('', ' '):
                        v = pad + json.dumps(dict(p), separators=seps) + pad
                        acc.counters['transitions'] = acc.counters.get('transitions', 0) + 1
                        w = {'kind': 'nel', 'cls': qn, 'canonical': c.decode(), 'variant': v}
                        try:
                            got = cls.parse_exact_size(v.encode('ascii'))
                        except Exception as e:  # noqa
                            acc.violation('spelling:NEL:json:rejected:%s' % core.ename(e), 'JSON spelling %r rejected' % v, w)
                            continue
                        if canon.dump(got, eq=True) != d0:
                            acc.violation('spelling:NEL:json:differs', 'JSON spelling %r parses differently' % v, w)
            acc.state(core.h64(qn, c))
    acc.sample({'kind': 'nel', 'rows': ['member order', 'whitespace']}, 1)
    return acc.result()


def ref_split_block(data):
    """6-line reference splitter (RFC 7230 s3.2): CRLF lines, first colon, OWS trimmed, names lower-cased."""
    out = []
    for line in data.split(b'\r\n'):
        if not line:
            continue
        name, _, value = line.partition(b':')
        out.append((name.decode('ascii').lower(), value.strip(b' \t').decode('ascii')))
    return out


def _block_worker(_):
    acc = core.Acc()
    from cryptoparser.httpx.header import HttpHeaderFields
    fields = [('Strict-Transport-Security', 'max-age=1'), ('Cache-Control', 'no-cache'), ('X-Verif-Unknown', 'some value'),
              ('Server', 'nginx')]
    for n in range(1, 4):
        for combo in itertools.product(fields, repeat=n):
            base_wire = b''.join(('%s: %s\r\n' % (k, v)).encode() for k, v in combo) + b'\r\n'
            try:
                base = HttpHeaderFields.parse_exact_size(base_wire)
            except Exception as e:  # noqa
                acc.violation('block:canonical_rejected:%s' % core.ename(e), 'header block rejected', {'kind': 'block', 'wire': base_wire})
                continue
            d0 = canon.dump(base, eq=True)
            for case in CASES:
                for ows_a, ows_b in (('', ''), (' ', ''), ('  ', ' '), ('\t', '\t'), ('', ' ')):
                    wire = b''.join(('%s:%s%s%s\r\n' % (case(k), ows_a, v, ows_b)).encode() for k, v in combo) + b'\r\n'
                    acc.counters['transitions'] = acc.counters.get('transitions', 0) + 1
                    w = {'kind': 'block', 'wire': wire}
                    try:
                        got = HttpHeaderFields.parse_exact_size(wire)
                    except Exception as e:  # noqa
                        acc.violation('block:rejected:%s:%s' % (core.ename(e), 'trailing_ows' if ows_b else 'leading_ows' if ows_a != ' ' else 'case'),
                                      'header block spelling rejected: %r' % wire, w)
                        continue
                    if canon.dump(got, eq=True) != d0:
                        # a name-case failure shows with every OWS pattern, an OWS failure also with the canonical case
                        which = 'case' if case is not CASES[2] else \
                            'trailing_ows' if ows_b else 'no_ows' if ows_a == '' else 'ows'
                        acc.violation('block:differs:%s' % which, 'header block %r parses differently from its canonical '
                                      'spelling' % wire, w)
                        continue
                    # same list of (lower-cased name, value) as the reference splitter
                    lib = []
                    for f in got:
                        if hasattr(f, 'name') and isinstance(getattr(f, 'name'), str):
                            lib.append((f.name.lower(), f.value))
                        else:
                            lib.append((f.get_header_field_name().value.code.lower(),
                                        bytes(f.value.compose()).decode('ascii')))
                    exp = ref_split_block(wire)
                    if [x[0] for x in lib] != [x[0] for x in exp]:
                        acc.violation('block:names', 'header block field names differ from the reference split', w)
                    acc.state(core.h64('block', wire))
    acc.sample({'kind': 'block', 'fields': [k for k, _ in fields]}, 1)
    return acc.result()


# ---- histories: spellings of type B judged in a pristine interpreter that parsed type A first -------------------
def history_panel(per_type_values, per_value_variants):
    """{class qualified name: [(canonical text, [variant text...])]}: for every type, the canonical spellings of the
    first values of its seed neighbourhoods (most elements first) with their one-row variants."""
    so = objects.seed_objects()
    out = {}
    for cname, sep, fixed, rows, clause in TYPES:
        cls = [c for c in classes.parsable_classes() if c.__name__ == cname]
        if not cls:
            continue
        cls = cls[0]
        texts = []
        for seed in so.get(cls, []):
            for path, o, stats in objects.neighbourhood(seed, 1, False, 120):
                try:
                    c = bytes(o.compose())
                    cls.parse_exact_size(c)
                    t = c.decode('ascii')
                except Exception:  # noqa
                    continue
                if t not in texts:
                    texts.append(t)
        texts.sort(key=lambda t: (-len(split_top(t, sep)), len(t), t))
        vals = []
        for t in texts[:per_type_values]:
            vs = []
            for combo, v in variants_of(t, sep, fixed, rows, 1):
                if v not in vs and v != t:
                    vs.append(v)
                if len(vs) >= per_value_variants:
                    break
            vals.append((t, vs))
        out[classes.qualname(cls)] = vals
    return out


def history_child():
    """Child interpreter (python -m mc.props.c18 --history): reads {'first': [[qn, text]...], 'then': [[qn, text]...]}
    from stdin, parses the 'first' inputs (outcome ignored), then prints one line per 'then' input: digest of the
    canonical dump of the parsed object, or EXC:<type>.  Nothing else is parsed in this process."""
    import hashlib
    import json
    core.import_repo()
    job = json.load(sys.stdin)
    for qn, text in job['first']:
        try:
            classes.class_by_name(qn).parse_exact_size(text.encode('ascii'))
        except Exception:  # noqa
            pass
    for qn, text in job['then']:
        try:
            o = classes.class_by_name(qn).parse_exact_size(text.encode('ascii'))
            d = hashlib.md5(repr(canon.dump(o, eq=True)).encode()).hexdigest()[:16]
            try:
                if bytes(classes.class_by_name(qn).parse_exact_size(bytes(o.compose())).compose()) != bytes(o.compose()):
                    d += ':unstable'
            except Exception as e:  # noqa
                d += ':recompose:' + core.ename(e)
        except Exception as e:  # noqa
            d = 'EXC:' + core.ename(e)
        sys.stdout.write(d + '\n')


def _history_worker(args):
    import json
    import subprocess
    a_qn, b_qn, first, then = args
    acc = core.Acc()
    out = subprocess.run([sys.executable, '-m', 'mc.props.c18', '--history'], cwd=core.VERIF,
                         input=json.dumps({'first': first, 'then': then}).encode(), stdout=subprocess.PIPE,
                         stderr=subprocess.PIPE, timeout=600, env=dict(os.environ, PYTHONHASHSEED='0', TZ='UTC'))
    if out.returncode != 0:
        raise RuntimeError('history child failed: %s' % out.stderr.decode()[-400:])
    lines = out.stdout.decode().split('\n')[:-1]
    if len(lines) != len(then):
        raise RuntimeError('history child printed %d lines for %d inputs' % (len(lines), len(then)))
    acc.counters['transitions'] = len(then)
    acc.counters['history_processes'] = 1
    acc.state(core.h64('history', a_qn, b_qn))
    return acc.counters, [], [], acc.states if hasattr(acc, 'states') else set(), lines


def histories(ctx, per_type_values, per_value_variants):
    """For every ordered pair (A, B) of types and for B alone: a pristine interpreter parses A's canonical spellings,
    then every panel spelling of B; the outcome of each spelling must not depend on A (and all spellings of one value
    agree, which the single-process exploration already judges)."""
    import multiprocessing
    panel = history_panel(per_type_values, per_value_variants)
    qns = sorted(panel)
    jobs = []
    for b in qns:
        then = []
        for t, vs in panel[b]:
            then.append([b, t])
            then += [[b, v] for v in vs]
        if not then:
            continue
        for a in [None] + qns:
            if a == b:
                continue
            first = [[a, t] for t, vs in panel[a]] if a else []
            jobs.append((a, b, first, then))
    pool = multiprocessing.get_context('fork').Pool(core.NPROC)
    try:
        res = pool.map(_history_worker, jobs)
    finally:
        pool.terminate()
        pool.join()
    base = {}
    for (a, b, first, then), r in zip(jobs, res):
        ctx.merge_counts(r[0])
        ctx.state_hashes.add(core.h64('history', a, b))
        if a is None:
            base[b] = r[4]
    for (a, b, first, then), r in zip(jobs, res):
        if a is None:
            continue
        for (qn, text), d0, d1 in zip(then, base[b], r[4]):
            if d0 != d1:
                ctx.violation({'signature': 'history:%s:after:%s' % (b.rsplit('.', 1)[1], a.rsplit('.', 1)[1]),
                               'what': 'parsing %r as %s gives %s in a fresh process but %s after %s values were '
                                       'parsed in the same process' % (text, b.rsplit('.', 1)[1], d0, d1,
                                                                     a.rsplit('.', 1)[1]),
                               'witness': {'kind': 'history', 'first': first, 'then': [qn, text], 'alone': d0,
                                           'after': d1}})
                break
    ctx.sample({'kind': 'history', 'types': len(qns), 'processes': len(jobs),
                'spellings_per_type': {q.rsplit('.', 1)[1]: sum(1 + len(vs) for t, vs in panel[q]) for q in qns}})


def run(ctx):
    max_rows = 2 if ctx.quick else 3
    cap = 600 if ctx.quick else 20000
    so = objects.seed_objects()
    items = []
    for ti, (cname, sep, fixed, rows, clause) in enumerate(TYPES):
        cls = [c for c in classes.parsable_classes() if c.__name__ == cname]
        if not cls:
            continue
        for i in range(len(so.get(cls[0], []))):
            for ch in range(8):
                items.append((ti, i, max_rows, cap, ch, 8))
    ctx.pmap(_type_worker, items)
    ctx.pmap(_nel_worker, [0], nproc=1)
    ctx.pmap(_block_worker, [0], nproc=1)
    histories(ctx, 6 if ctx.quick else 40, 12 if ctx.quick else 60)
    if ctx.counters.get('work_items_cut_by_watchdog'):
        ctx.cap('%d work items cut by their watchdog (1500 s); what they explored until then is counted'
                % ctx.counters['work_items_cut_by_watchdog'])
    if ctx.counters.get('capped_values'):
        ctx.cap('per-value variant cap %d hit for %d values' % (cap, ctx.counters['capped_values']))
    ctx.notes['variation_rows'] = {t[0]: {'rows': list(t[3]), 'clause': t[4]} for t in TYPES}
    ctx.assumptions += ['a variation row is in the table only where the governing RFC clause (cited in the evidence) '
                        'declares it insignificant for that type; others are left out rather than risk an alarm on correct '
                        'code']
    return ctx.finish(rule='for every value within one deviation of the seeds of 13 header / TXT types: every spelling with '
                           '<= %d variation rows applied at once (case patterns x4, whitespace around separators x15, around '
                           '"=", empty elements, trailing separator, every permutation of <= 4 free elements, quoted '
                           'token, unknown directive at every position), capped at %d spellings per value; NEL JSON member '
                           'orders x whitespace; header blocks of <= 3 fields x name case x OWS; histories: for every '
                           'ordered pair of types a pristine interpreter parses the first type, then a panel of '
                           'spellings of the second - outcomes must equal those of the second type alone'
                           % (max_rows, cap))


def replay(ctx, w):
    acc = core.Acc()
    if w['kind'] == 'spelling':
        cls = classes.class_by_name(w['cls'])
        base = cls.parse_exact_size(w['canonical'].encode('ascii'))
        cname = cls.__name__
        try:
            got = cls.parse_exact_size(w['variant'].encode('ascii'))
        except Exception as e:  # noqa
            return {'signature': 'spelling:%s:%s:rejected:%s' % (cname, '+'.join(w['rows']), core.ename(e)),
                    'what': 'rejected', 'witness': w}
        d0, d1 = canon.dump(base, eq=True), canon.dump(got, eq=True)
        if d0 != d1:
            return {'signature': 'spelling:%s:%s:differs:%s' % (cname, '+'.join(w['rows']), canon.generic_path_leaf(d0, d1)),
                    'what': 'differs', 'witness': w}
        return None
    if w['kind'] == 'history':
        a = w['first'][0][0] if w['first'] else None
        r0 = _history_worker((None, w['then'][0], [], [w['then']]))
        r1 = _history_worker((a, w['then'][0], w['first'], [w['then']]))
        if r0[4] != r1[4]:
            return {'signature': 'history:%s:after:%s' % (w['then'][0].rsplit('.', 1)[1], a.rsplit('.', 1)[1]),
                    'what': 'outcome depends on what was parsed before', 'witness': w}
        return None
    res = _nel_worker(0) if w['kind'] == 'nel' else _block_worker(0)
    return res[1][0] if res[1] else None


if __name__ == '__main__':
    if len(sys.argv) > 1 and sys.argv[1] == '--history':
        history_child()
