"""C01 - compose then parse returns the same message and consumes every byte.

Explicit-state BFS over the object graph (mc/objects.py): every object within k single-field deviations of a
seed object of every concrete class; oracle: compose, parse_immutable (n == len), parse_exact_size, equality.
"""
import re

from mc import canon, classes, core, objects

TOP_LEVEL = ('TlsRecord', 'SslRecord', 'TlsHandshakeClientHello', 'TlsHandshakeServerHello', 'SshRecordInit',
             'SshKeyExchangeInit', 'SshProtocolMessage', 'MySQLHandshakeV10', 'MySQLRecord', 'TPKT',
             'DnsRecordDnskey', 'DnsRecordRrsig', 'HttpHeaderFields', 'TlsHandshakeCertificateRequest',
             'TlsAlertMessage', 'SslHandshakeClientHello', 'SslHandshakeServerHello', 'SshDisconnectMessage',
             'RDPNegotiationRequest', 'RDPNegotiationResponse', 'COTPConnectionRequest', 'COTPConnectionConfirm',
             'OpenVpnPacketControlV1', 'OpenVpnPacketAckV1', 'MySQLHandshakeSslRequest', 'TlsExtensionsClient',
             'TlsExtensionsServer', 'TlsCipherSuiteVector', 'DnsRecordDs', 'DnsRecordMx', 'DnsRecordTxt')


def path_kind(path):
    if not path:
        return 'seed'
    last = path[-1]
    last = re.sub(r'\[\d+\]', '[]', last)
    # keep field and variant family, drop the concrete value:  a.b=int:2^16-1 -> a.b=int ; x.ins-head:member:FOO -> x.ins-head:member
    m = re.match(r'^(.*?)(=|\.)?((?:int|bytes|str|enum|dt|td|set|opt|bool|float|ins-head|ins-tail|del|dup|reverse|'
                 r'member|grease|unknown)[^:]*)(:.*)?$', last)
    if '=' in last:
        field, _, val = last.partition('=')
        return '%s=%s' % (field.rsplit('.', 1)[-1], val.split(':')[0])
    parts = last.split(':')
    return ':'.join(parts[:2]) if len(parts) > 1 else last


def compose_definer(obj):
    for k in type(obj).__mro__:
        if 'compose' in k.__dict__:
            return k.__name__
    return type(obj).__name__


def owner_of(target, diff_path):
    """Innermost library object on the path to the differing field: the root cause lives in its composer/parser."""
    cur, owner = target, target
    for part in re.findall(r'\.([A-Za-z_][A-Za-z0-9_]*)|\[(\d+)\]', diff_path or ''):
        name, idx = part
        try:
            if name:
                cur = getattr(cur, name)
            else:
                seq = list(cur) if not isinstance(cur, (list, tuple)) else cur
                cur = seq[int(idx) - 1]     # dump tuples carry the kind tag at index 0
        except Exception:  # noqa
            break
        if objects.is_lib_object(cur) and type(cur).__module__.startswith('cryptoparser.'):
            owner = cur
    return owner


def generic_path(diff_path):
    return re.sub(r'\[\d+\]', '[]', diff_path or '.')


class Attribution(object):
    """A failure seen on a multi-step object is attributed to the step that already produces the same failure on
    its own (depth-1), so that one root cause has one signature whatever else was varied along with it."""

    def __init__(self):
        self.by_tag = {}

    def kind_for(self, path, key):
        for tag in path:
            if key in self.by_tag.get(tag, ()):
                return path_kind((tag,))
        if len(path) == 1:
            self.by_tag.setdefault(path[0], set()).add(key)
        return path_kind(path)


def check_object(acc, cls, o, path, seed_id, attribution=None):
    """The C01 oracle for one object. Returns composed bytes or None."""
    attribution = attribution or Attribution()
    from cryptoparser.common.base import VariantParsableBase
    from cryptoparser.common.exception import InvalidType
    qn = classes.qualname(cls)
    doc = classes.documented_errors()
    acc.counters['transitions'] = acc.counters.get('transitions', 0) + 1
    w = {'cls': qn, 'seed': seed_id, 'path': list(path)}
    definer = compose_definer(o)
    kind = path_kind(path)

    def kind_of(key):
        return attribution.kind_for(tuple(path), key)
    try:
        b = o.compose()
    except doc as e:
        acc.count('not_composable')
        return None
    except core.Timeout:
        raise
    except Exception as e:  # noqa
        acc.violation('compose_raises:%s:%s:%s' % (leak_site(e) or definer, core.ename(e),
                                                   kind_of(('compose_raises', leak_site(e), core.ename(e)))),
                      'compose() of a constructible %s raises %s: %s' % (cls.__name__, core.ename(e), str(e)[:80]),
                      w)
        return None
    if not isinstance(b, (bytes, bytearray)):
        acc.violation('compose_type:%s' % definer, 'compose() returns %s' % type(b).__name__, w)
        return None
    b = bytes(b)
    w['composed'] = b
    target = o.variant if isinstance(o, VariantParsableBase) else o
    wire = b
    try:
        o2, n = cls.parse_immutable(wire)
    except core.Timeout:
        raise
    except Exception as e:  # noqa
        o2 = None
        if needs_terminator(cls):
            # header fields are list elements: their parser requires (and does not consume) the CRLF of the list
            try:
                o2, n = cls.parse_immutable(b + b'\r\n')
            except Exception as e2:  # noqa
                e = e2
                o2 = None
        if o2 is None:
            if isinstance(e, InvalidType) and path and ('=enum:' in path[-1] or ':member:' in path[-1]):
                # the parser says "another type's encoding": the varied enum field is a type discriminator
                acc.count('out_of_domain_discriminator')
                return b
            acc.violation('parse_rejects:%s:%s:%s' % (definer, core.ename(e),
                                                      kind_of(('parse_rejects', definer, core.ename(e)))),
                          'composed bytes of a %s are rejected by its own parser: %s %s'
                          % (cls.__name__, core.ename(e), str(e)[:80]), w)
            return b
    if n != len(b):
        acc.violation('not_all_consumed:%s:%s' % (definer, kind_of(('not_all_consumed', definer))),
                      'parse of a composed %s consumed %d of %d bytes'
                      % (cls.__name__, n, len(b)), w)
    d1, d2 = canon.dump(target, eq=True), canon.dump(o2, eq=True)
    if d1 != d2 and not isinstance(o2, cls) and hasattr(target, 'value') \
            and canon.dump(target.value, eq=True) == d2:
        # unnamed value components (canonical name '') parse to their bare value: the library's convention
        d2 = d1
    if d1 != d2:
        dp = canon.first_diff(d1, d2)
        own = owner_of(target, dp)
        leaf = generic_path(dp).rsplit('.', 1)[-1]
        acc.violation('not_equal:%s:%s:%s:%s' % (compose_definer(own), leaf, canon.diff_kind(d1, d2),
                                                 kind_of(('not_equal', compose_definer(own), leaf))),
                      'parsed %s differs from the original at %s' % (cls.__name__, dp), w)
    try:
        if not needs_terminator(cls):
            cls.parse_exact_size(b)
    except core.Timeout:
        raise
    except Exception as e:  # noqa
        if n == len(b):
            acc.violation('exact_size_rejects:%s:%s' % (definer, core.ename(e)),
                          'parse_exact_size rejects what parse_immutable accepted in full', w)
    return b


def needs_terminator(cls):
    from cryptoparser.httpx.header import HttpHeaderFieldBase, HttpHeaderFieldUnparsed
    return issubclass(cls, (HttpHeaderFieldBase, HttpHeaderFieldUnparsed))


def leak_site(exc):
    import os
    tb = exc.__traceback__
    site = None
    root = os.path.join(os.path.realpath(core.REPO), 'cryptoparser') + os.sep
    while tb is not None:
        code = tb.tb_frame.f_code
        fn = os.path.realpath(code.co_filename)
        if fn.startswith(root):
            site = getattr(code, 'co_qualname', code.co_name)
        tb = tb.tb_next
    return site


def work_items(ctx):
    so = objects.seed_objects()
    items = []
    for cls in classes.parsable_classes():
        objs = so.get(cls, [])
        for i in range(len(objs)):
            items.append((classes.qualname(cls), i))
    return items


def _worker(args):
    qn, idx, depth_default, depth_top, wide, limit = args
    acc = core.Acc()
    cls = classes.class_by_name(qn)
    so = objects.seed_objects()
    objs = so.get(cls, [])
    if idx >= len(objs):
        return acc.result()
    seed = objs[idx]
    depth = depth_top if cls.__name__ in TOP_LEVEL else depth_default
    import enum as _enum
    if isinstance(seed, _enum.Enum):
        depth = 0
    stats = None
    attribution = Attribution()
    with core.watchdog(1200):
        for path, o, stats in objects.neighbourhood(seed, depth, wide, limit):
            acc.state(core.h64(qn, repr(canon.dump(o))))
            check_object(acc, cls, o, path, idx, attribution)
    if stats:
        acc.count('not_constructible', stats['not_constructible'])
        acc.count('objects', stats['constructed'] + 1)
    if idx == 0:
        acc.sample({'cls': qn, 'seed_object': repr(seed)[:200], 'depth': depth}, 1)
    return acc.result()


def _inplace_worker(args):
    """Two histories, one value: a nested change reached by reconstruction and by assignment in place must compose
    to the same bytes, and those bytes must parse back to the in-place object."""
    qn, idx, wide = args
    acc = core.Acc()
    cls = classes.class_by_name(qn)
    objs = objects.seed_objects().get(cls, [])
    if idx >= len(objs):
        return acc.result()
    seed = objs[idx]
    nc = objects._not_constructible()
    doc = classes.documented_errors()
    try:
        variants = objects.inplace_variants(seed, wide)
    except nc:
        return acc.result()
    for tag, rebuilt, inplace in variants:
        acc.count('transitions')
        acc.count('inplace_histories')
        w = {'kind': 'inplace', 'cls': qn, 'seed': idx, 'tag': tag}
        try:
            a = rebuilt()
        except nc:
            acc.count('not_constructible')
            continue
        try:
            ba = bytes(a.compose())
        except doc:
            acc.count('not_composable')
            continue
        except Exception:  # noqa - judged by the main exploration
            continue
        def warm(c):
            try:
                c.compose()         # the copy is used (composed) before it is edited: a cached encoding must not survive
            except Exception:  # noqa
                pass
        try:
            b = inplace(warm)
        except nc + (AttributeError,):    # frozen nested object / refused edit: no in-place history exists
            acc.count('inplace_not_possible')
            continue
        acc.state(core.h64('inplace', qn, repr(canon.dump(b))))
        holder = tag.split('.')[0].split('[')[0] or type(seed).__name__
        try:
            bb = bytes(b.compose())
        except Exception as e:  # noqa
            acc.violation('inplace_compose_raises:%s:%s:%s' % (compose_definer(b), holder, core.ename(e)),
                          'after %s was assigned in place compose() of the %s raises %s although the same value '
                          'built by construction composes' % (tag, cls.__name__, core.ename(e)), w)
            continue
        if bb != ba:
            acc.violation('inplace_differs:%s:%s' % (compose_definer(b), holder),
                          '%s reached by assignment in place composes to different bytes than the equal object '
                          'built by construction (%d vs %d bytes, %s)' % (cls.__name__, len(bb), len(ba), tag),
                          dict(w, inplace=bb[:200], constructed=ba[:200]))
    return acc.result()


def _after_history_worker(i):
    """A message constructed *after* another message of its class was built and edited in place must still round-trip
    (and be the message its arguments describe): construct a, edit a in place (every event on every mutable part),
    construct c with the same arguments, run the C01 oracle on c."""
    from mc.props import c13
    acc = core.Acc()
    cls, kwargs, defaulted = c13.constructible_with_defaults()[i]
    qn = classes.qualname(cls)
    nc = objects._not_constructible()
    import copy

    def build():        # every instance gets its own copy of the arguments: the harness itself must not alias them
        return cls(**copy.deepcopy(kwargs))
    try:
        first = build()
        events = c13.mutable_paths_events(build())
    except nc:
        return acc.result()
    # what the oracle says about an instance built before any history (defaults such as "now" with microseconds or a
    # random cookie are judged by the main exploration, not here)
    base = core.Acc()
    check_object(base, cls, first, ('no-history',), -1)
    baseline = {sig.split(':no-history')[0] for sig in base.violations}
    for path, mutate in events:
        try:
            a = build()
            mutate(a)
        except Exception:  # noqa - construction or the edit refused
            continue
        try:
            c = build()
        except nc:
            continue
        acc.count('after_history_objects')
        acc.state(core.h64('after', qn, path))
        sub = core.Acc()
        check_object(sub, cls, c, ('no-history',), -1)
        acc.counters['transitions'] = acc.counters.get('transitions', 0) + 1
        for sig, v in sub.violations.items():
            if sig.split(':no-history')[0] in baseline:
                continue
            acc.violation('after_history:%s:%s' % (cls.__name__, path.split(':')[0]),
                          'constructed after %s of an earlier instance: %s' % (path, v.get('what', '')),
                          {'kind': 'after_history', 'index': i, 'cls': qn, 'path': path})
            break
    return acc.result()


def run(ctx):
    if ctx.quick:
        params = (1, 2, False, 4000)
    else:
        params = (2, 3, True, 60000)
    items = [(qn, i) + params for qn, i in work_items(ctx)]
    so = objects.seed_objects()
    uncovered = [c.__name__ for c in classes.parsable_classes() if not so.get(c)]
    ctx.notes['classes'] = len(classes.parsable_classes())
    ctx.notes['classes_without_reachable_object'] = uncovered
    ctx.notes['seed_objects'] = len(items)
    ctx.pmap(_worker, items)
    ctx.pmap(_inplace_worker, [(qn, i, not ctx.quick) for qn, i in work_items(ctx)])
    from mc.props import c13
    ctx.pmap(_after_history_worker, list(range(len(c13.constructible_with_defaults()))), fresh=True)
    ctx.assumptions += [
        'domain of a field = what the class constructor accepts; a value compose() refuses with a documented '
        'error has no composed bytes (counted as not_composable)',
        'equality = equal canonical dumps (field by field, bytes/bytearray and list/tuple not distinguished)',
        'errors made symmetrically in parse and compose are outside this property (C06-C09)',
    ]
    if ctx.caps:
        pass
    return ctx.finish(rule='BFS over the object graph: every object within %d single-field deviations of every seed '
                           'object (parsed corpus incl. nested values, all enum members, hand seeds) of every '
                           'concrete class, %d for %d top-level classes; field alphabets of DESIGN §3.2; '
                           'state = distinct canonical dump; plus, for every seed object, every one-field change of a '
                           'nested object reached both by reconstruction and by assignment in place (the two '
                           'histories must compose identically); and for every class with defaulted arguments the '
                           'message constructed after an in-place edit of an earlier instance (fresh process per class)'
                           % (params[0], params[1], len(TOP_LEVEL)))


def replay(ctx, w):
    acc = core.Acc()
    if w.get('kind') == 'after_history':
        res = _after_history_worker(w['index'])
        for v in res[1]:
            if v['witness'].get('path') == w.get('path'):
                return v
        return res[1][0] if res[1] else None
    if w.get('kind') == 'inplace':
        res = _inplace_worker((w['cls'], w['seed'], True))
        for v in res[1]:
            if v['witness'].get('tag') == w['tag']:
                return v
        res = _inplace_worker((w['cls'], w['seed'], False))
        for v in res[1]:
            if v['witness'].get('tag') == w['tag']:
                return v
        return None
    cls = classes.class_by_name(w['cls'])
    so = objects.seed_objects()
    seed = so[cls][w['seed']]
    want = tuple(w['path'])
    for path, o, stats in objects.neighbourhood(seed, len(want), True, None):
        if tuple(path) == want:
            check_object(acc, cls, o, path, w['seed'])
            break
    else:
        for path, o, stats in objects.neighbourhood(seed, len(want), False, None):
            if tuple(path) == want:
                check_object(acc, cls, o, path, w['seed'])
                break
    vs = list(acc.violations.values())
    return vs[0] if vs else None
