"""setup_cmd self-test: import path, and (as drivers are added) negative controls for each oracle."""
import sys

from mc import core


def main():
    core.import_repo()
    import cryptoparser  # noqa
    print('selftest: cryptoparser from', cryptoparser.__file__)
    from mc import selftest_controls
    failed = selftest_controls.run_all()
    if failed:
        print('selftest: FAILED controls:', failed)
        return 2
    print('selftest: ok')
    return 0


if __name__ == '__main__':
    sys.exit(main())
