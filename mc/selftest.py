"""setup_cmd self-test: import path, and (as drivers are added) negative controls for each oracle."""
import os
import sys

from mc import core


def main():
    core.import_repo()
    import cryptoparser  # noqa
    print('selftest: cryptoparser from', cryptoparser.__file__)
    from mc import selftest_controls
    failed = selftest_controls.run_all()
    if failed:
        # Negative controls patch library functions in this process; on a tree that was changed in exactly those
        # places a control may be unable to fire.  That must not stop the checks from running on such a tree, so it
        # is reported, and fatal only when asked for (VERIF_SELFTEST_STRICT=1, used while developing the harness).
        print('selftest: controls that did not fire:', failed)
        if os.environ.get('VERIF_SELFTEST_STRICT') == '1':
            return 2
    print('selftest: ok')
    return 0


if __name__ == '__main__':
    sys.exit(main())
