"""K2/K3: byte-level input families (DESIGN §3.3).  Pure enumerations of stated finite sets."""

B5 = (0x00, 0x01, 0x7f, 0x80, 0xff)


def b9(b):
    vals = []
    # boundary values, neighbours of b, and two structural values: '.' (label / token separator inside names) and
    # 0x40 (first length above the 63-octet label limit; with 0x3f = b9(0x40)'s neighbour)
    cands = (0x00, 0x01, 0x7f, 0x80, 0xff, b ^ 0x01, b ^ 0x80, (b + 1) & 0xff, (b - 1) & 0xff, 0x2e, 0x40)
    if 0x41 <= b <= 0x5a or 0x61 <= b <= 0x7a:
        cands += (b ^ 0x20,)       # the other letter case (names that are case-insensitive on the wire)
    for v in cands:
        if v != b and v not in vals:
            vals.append(v)
    return vals


def positions(n, thorough_all):
    """Positions that are mutated. Long seeds: first 96 and last 32 positions (all if n <= 512 in thorough,
    n <= 160 in quick)."""
    limit = 512 if thorough_all else 160
    if n <= limit:
        return list(range(n))
    return list(range(96)) + list(range(n - 32, n))


def i1_truncations(seed):
    for i in range(len(seed)):
        yield ('I1', i), seed[:i]


def i2_substitutions(seed, thorough):
    n = len(seed)
    for p in positions(n, thorough):
        b = seed[p]
        vals = [v for v in range(256) if v != b] if (thorough and n <= 512) else b9(b)
        for v in vals:
            yield ('I2', p, v), seed[:p] + bytes((v,)) + seed[p + 1:]


def i3_del_ins(seed, thorough):
    n = len(seed)
    pos = positions(n, thorough)
    for p in pos:
        yield ('I3d', p), seed[:p] + seed[p + 1:]
    for p in pos + [n]:
        for v in B5:
            yield ('I3i', p, v), seed[:p] + bytes((v,)) + seed[p:]


def i9_stretch(seed, thorough):
    """One substituted byte *and* 300 filler octets appended: a length / count octet raised to a boundary value finds
    enough data behind it to be honoured (two coordinated deviations a single substitution cannot reach)."""
    n = len(seed)
    # two fillers: letters (more items / text follow) and zero octets (empty items / terminators follow)
    for fi, filler in enumerate((b'a' * 300, b'\x00' * 300)):
        for p in positions(n, thorough)[:96 if not thorough else None]:
            for v in (0x3f, 0x40, 0x7f, 0xff):
                if v != seed[p]:
                    yield ('I9', p, v, fi), seed[:p] + bytes((v,)) + seed[p + 1:] + filler


def i4_pairs(seed, thorough):
    lim = min(len(seed), 24 if thorough else 8)
    for i in range(lim):
        for j in range(i + 1, lim):
            for a in B5:
                if a == seed[i]:
                    continue
                for b in B5:
                    if b == seed[j]:
                        continue
                    m = bytearray(seed)
                    m[i] = a
                    m[j] = b
                    yield ('I4', i, a, j, b), bytes(m)


def sigma(seeds, cap):
    """Per-class reduced alphabet: distinct bytes at positions 0-3 of the seeds, plus B5."""
    vals = list(B5)
    for s in seeds:
        for b in s[:4]:
            if b not in vals:
                vals.append(b)
    return vals[:cap]


def i5_short(seeds, thorough):
    yield ('I5', 0), b''
    for a in range(256):
        yield ('I5', 1, a), bytes((a,))
    if thorough:
        for a in range(256):
            for b in range(256):
                yield ('I5', 2, a, b), bytes((a, b))
        sg = sigma(seeds, 24)
        for a in sg:
            for b in sg:
                for c in sg:
                    yield ('I5', 3, a, b, c), bytes((a, b, c))
        sg = sigma(seeds, 12)
        for a in sg:
            for b in sg:
                for c in sg:
                    for d in sg:
                        yield ('I5', 4, a, b, c, d), bytes((a, b, c, d))
    else:
        sg = sigma(seeds, 24)
        for a in sg:
            for b in sg:
                yield ('I5', 2, a, b), bytes((a, b))
        sg = sigma(seeds, 8)
        for a in sg:
            for b in sg:
                for c in sg:
                    yield ('I5', 3, a, b, c), bytes((a, b, c))


def cut_points(seed, k=12):
    n = len(seed)
    pts = sorted({0, 1, 2, 3, 4, 5, 6, 8, n // 2, n - 2, n - 1, n} & set(range(n + 1)))
    return pts[:k]


def i7_splices(s1, s2):
    yield ('I7c',), s1 + s2
    for i in cut_points(s1):
        for j in cut_points(s2):
            yield ('I7', i, j), s1[:i] + s2[j:]


def i8_suffixes(seed, other):
    yield ('I8', '00'), b'\x00'
    yield ('I8', 'ff'), b'\xff'
    yield ('I8', 'crlf'), b'\r\n'
    yield ('I8', 'self'), seed
    if other is not None:
        yield ('I8', 'other'), other
    yield ('I8', '64x00'), b'\x00' * 64
    yield ('I8', '64xff'), b'\xff' * 64
    yield ('I8', 'A'), b'A'


def text_tokens(seeds, cap=15):
    """I6 token alphabet of a text class: names/values seen in seeds split at separators, each separator,
    a quote, one non-ASCII byte, NUL, a 40-digit number, the empty token."""
    import re
    toks = []
    seps = []
    for s in seeds:
        for t in re.split(rb'([;,= :\t"\r\n/])', s):
            if not t:
                continue
            if re.fullmatch(rb'[;,= :\t"\r\n/]', t):
                if t not in seps:
                    seps.append(t)
            elif t not in toks and len(t) <= 40:
                toks.append(t)
    base = seps[:5] + toks[:cap - 10 if cap > 10 else 2]
    for extra in (b'0', b'"', b'\xc3', b'\x00', b'1' * 40, b'1' * 4301):   # 4301: above CPython's int-from-str limit
        if extra not in base:
            base.append(extra)
    return base[:cap]


def i6_tokens(seeds, depth):
    toks = text_tokens(seeds)

    def rec(prefix, d):
        yield ('I6', len(prefix)), b''.join(prefix)
        if d == 0:
            return
        for t in toks:
            for x in rec(prefix + [t], d - 1):
                yield x
    seen = set()
    for tag, data in rec([], depth):
        if data not in seen:
            seen.add(data)
            yield tag, data


def is_texty(seeds):
    if not seeds:
        return False
    n = sum(len(s) for s in seeds) or 1
    printable = sum(1 for s in seeds for b in s if 32 <= b < 127 or b in (9, 10, 13))
    return printable / n > 0.95


JSON_ALTS = ('NaN', 'Infinity', '-1', '1e400', '99999999999999999999', '"x"', '""', 'null', 'true', '[]', '{}', '[1]',
             '1.5', '0')


def i10_json(seed):
    """For a seed that is a JSON object: every member value replaced by each of JSON_ALTS, every member removed, and
    the document replaced by each alternative (non-object documents)."""
    import json
    try:
        doc = json.loads(seed.decode('ascii'))
    except Exception:  # noqa
        return
    if not isinstance(doc, dict):
        return
    keys = list(doc)

    def render(d, raw):
        parts = []
        for k in d:
            parts.append('%s: %s' % (json.dumps(k), raw[k] if k in raw else json.dumps(d[k])))
        return ('{' + ', '.join(parts) + '}').encode('ascii')
    for k in keys:
        for alt in JSON_ALTS:
            yield ('I10', k, alt), render(doc, {k: alt})
        rest = {x: doc[x] for x in keys if x != k}
        yield ('I10', k, 'removed'), render(rest, {})
    for alt in JSON_ALTS:
        yield ('I10', '$', alt), alt.encode('ascii')
    # nesting deeper than the interpreter's recursion limit (arrays, objects)
    yield ('I10', '$', 'deep-array'), b'[' * 100000
    yield ('I10', '$', 'deep-object'), b'{"a":' * 50000


def ssh_name_enums():
    """String-coded SSH enumerations whose members appear on the wire as uint32-prefixed names."""
    from cryptodatahub.ssh import algorithm as a
    out = []
    for name in ('SshHostKeyAlgorithm', 'SshKexAlgorithm', 'SshEncryptionAlgorithm', 'SshMacAlgorithm',
                 'SshCompressionAlgorithm', 'SshEllipticCurveIdentifier'):
        e = getattr(a, name, None)
        if e is not None:
            out.append(e)
    return out


def i11_names(seed, limit_occurrences=3):
    """Every uint32-prefixed occurrence of a member name of a string-coded SSH enumeration replaced by every other
    member name of that enumeration (length prefix recomputed): all registered names reach every parser that
    reads one, not only the names the corpus happens to use."""
    for e in ssh_name_enums():
        codes = [m.value.code.encode('ascii') for m in e]
        found = 0
        for c in sorted(set(codes), key=len, reverse=True):
            needle = len(c).to_bytes(4, 'big') + c
            pos = seed.find(needle)
            if pos < 0:
                continue
            found += 1
            for other in codes:
                if other != c:
                    yield ('I11', e.__name__, pos, other.decode('ascii')), \
                        seed[:pos] + len(other).to_bytes(4, 'big') + other + seed[pos + len(needle):]
            if found >= limit_occurrences:
                break


# ---- I12: constants the library itself compares input against ----------------------------------------------------------
_MAGIC = None


def magic_constants():
    """[(qualified name, bytes)] - every octet-string constant of at least 4 octets defined at module or class level in
    the package (RFC 8446 s4.1.3 HelloRetryRequest random, ...), plus the composed form of module-level parsable
    instances: values a parser may special-case, so inputs carrying them get their own executions."""
    global _MAGIC
    if _MAGIC is not None:
        return _MAGIC
    import importlib
    import pkgutil
    import cryptoparser
    found = {}
    for m in pkgutil.walk_packages(cryptoparser.__path__, 'cryptoparser.'):
        try:
            mod = importlib.import_module(m.name)
        except Exception:  # noqa
            continue
        scopes = [(m.name, vars(mod))]
        for k, v in list(vars(mod).items()):
            if isinstance(v, type) and getattr(v, '__module__', None) == m.name:
                scopes.append(('%s.%s' % (m.name, k), vars(v)))
        for prefix, ns in scopes:
            for k, v in list(ns.items()):
                if isinstance(v, (bytes, bytearray)) and len(v) >= 4:
                    found.setdefault(bytes(v), '%s.%s' % (prefix, k))
    # RFC 8446 s4.1.3 downgrade sentinels (last 8 octets of ServerHello.random)
    found.setdefault(b'DOWNGRD\x01', 'rfc8446.downgrade_tls12')
    found.setdefault(b'DOWNGRD\x00', 'rfc8446.downgrade_tls11')
    # words a parser compares with computed constants rather than named ones: the all-ones word of every field
    # width ("forever" timestamps, maximum lengths, -1) and the all-zero word
    for width in (2, 3, 4, 8):
        found.setdefault(b'\xff' * width, 'all_ones_%d' % width)
        found.setdefault(b'\x00' * width, 'all_zero_%d' % width)
    _MAGIC = sorted((name, val) for val, name in found.items())
    return _MAGIC


def i12_magic(seed):
    """Every library-defined constant written over the seed at every offset where it fits."""
    for name, val in magic_constants():
        for off in range(0, len(seed) - len(val) + 1):
            b = seed[:off] + val + seed[off + len(val):]
            if b != seed:
                yield ('I12', name.rsplit('.', 1)[-1], off), b
