"""Additional seed inputs per class beyond the harvested corpus (filled in as drivers are built)."""
_CACHE = {}


def extra_seeds():
    return _CACHE
