"""Additional seed inputs per class beyond the harvested corpus: the per-layer record alphabets of mc/layers.py
(valid composed records, incl. the SSL 2.0 3-byte-header / padded forms the composer never emits)."""
_CACHE = {}


def extra_seeds():
    if _CACHE:
        return _CACHE
    from mc import classes, layers
    for name, cls, recs, extra in layers.layers():
        qn = classes.qualname(cls)
        lst = _CACHE.setdefault(qn, [])
        for r in recs:
            if len(r) <= 600 and r not in lst:
                lst.append(bytes(r))
    return _CACHE
