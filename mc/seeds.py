"""Additional seed inputs per class beyond the harvested corpus: the per-layer record alphabets of mc/layers.py
(valid composed records, incl. the SSL 2.0 3-byte-header / padded forms the composer never emits)."""
_CACHE = {}


def extra_seeds():
    if _CACHE:
        return _CACHE
    from mc import classes, layers
    for name, cls, recs, extra in layers.layers():
        qn = classes.qualname(cls)
        lst = _CACHE.setdefault(qn, [])
        for r in recs:
            if len(r) <= 600 and r not in lst:
                lst.append(bytes(r))
    # BER spellings of the LDAP frames (the corpus and the composer only know DER): long-form lengths, and the
    # indefinite form on the constructed elements
    from mc.ref import misc_ref as ref
    req = _CACHE.setdefault('cryptoparser.tls.ldap.LDAPExtendedRequestStartTLS', [])
    resp = _CACHE.setdefault('cryptoparser.tls.ldap.LDAPExtendedResponseStartTLS', [])
    for forms in ({'msg': 4}, {'msg': 1, 'op': 4}, {'msg': -1}, {'op': -1}, {'msg': -1, 'op': -1}, {'msg': 4, 'op': -1}):
        for lst, b in ((req, ref.ldap_starttls_request(1, forms)), (resp, ref.ldap_starttls_response(0, 1, b'', b'', forms))):
            if b not in lst:
                lst.append(b)
    # SSL 2.0 hellos whose trailing variable-length fields are empty, so that the cipher specs are the last octets of
    # the record - well-formed, and with a CIPHER-SPECS-LENGTH that cuts the last 3-octet kind short while every
    # enclosing length stays consistent (an item must not be completed from what follows the record)
    from mc.ref import tls_ref as tr
    ssl2 = _CACHE.setdefault('cryptoparser.tls.record.SslRecord', [])
    kinds = b'\x01\x00\x80\x07\x00\xc0'
    for specs in (kinds, kinds[:3], kinds[:4], kinds[:5], kinds[:1], b''):
        sh = (b'\x04\x00\x01\x00\x02' + tr.u16(5) + tr.u16(len(specs)) + tr.u16(0) + b'\x30\x03\x02\x01\x00' + specs)
        ch = (b'\x01\x00\x02' + tr.u16(len(specs)) + tr.u16(0) + tr.u16(0) + specs)
        for body in (sh, ch):
            for rec in (tr.ssl2_record(body), tr.ssl2_record(body, 0, True)):
                if rec not in ssl2:
                    ssl2.append(rec)
    # OpenSSH certificate options the corpus does not have (lists of mixed kinds), reference-encoded: alone, in their
    # vector, and inside an Ed25519 v01 certificate - objects a changed constructor may refuse to build are still
    # reachable from the wire
    from mc.ref import ssh_ref as sr
    # (the value directly in the data field: the layout this library reads and writes - a listed C07 finding; the
    # PROTOCOL.certkeys layout with the inner string wrapper is kept as a second spelling in the vector seeds)
    src = sr.string(b'source-address') + sr.string(b'10.0.0.0/8,::1/128')
    src3 = sr.string(b'source-address') + sr.string(b'2001:db8::/32,192.168.1.1/32,10.0.0.0/8')
    force = sr.string(b'force-command') + sr.string(b'ls -l')
    wrapped = sr.string(b'source-address') + sr.string(sr.string(b'10.0.0.0/8,::1/128'))
    for qn, b in (('cryptoparser.ssh.key.SshCertExtensionSourceAddress', src),
                  ('cryptoparser.ssh.key.SshCertExtensionSourceAddress', src3),
                  ('cryptoparser.ssh.key.SshCertCriticalOptionVector', sr.string(force + src)),
                  ('cryptoparser.ssh.key.SshCertCriticalOptionVector', sr.string(src3)),
                  ('cryptoparser.ssh.key.SshCertCriticalOptionVector', sr.string(force + wrapped))):
        lst = _CACHE.setdefault(qn, [])
        if b not in lst:
            lst.append(b)
    cert = sr.cert_v01(b'ssh-ed25519-cert-v01@openssh.com', bytes(range(32)), sr.string(bytes(range(32, 64))), 7, 2, b'key-id',
                       [b'host.example'], 0, 2 ** 31, [(b'force-command', b'ls'), (b'source-address', b'10.0.0.0/8,::1/128')],
                       [(b'permit-pty', b''), (b'ext@verif.example', b'')], b'',
                       sr.key_ed25519(bytes(range(64, 96))), sr.string(b'ssh-ed25519') + sr.string(bytes(64)))
    for qn in ('cryptoparser.ssh.key.SshHostCertificateV01EDDSA', 'cryptoparser.ssh.key.SshHostPublicKeyVariant'):
        lst = _CACHE.setdefault(qn, [])
        if cert not in lst:
            lst.append(cert)
    return _CACHE
