"""Additional seed inputs per class beyond the harvested corpus: the per-layer record alphabets of mc/layers.py
(valid composed records, incl. the SSL 2.0 3-byte-header / padded forms the composer never emits)."""
_CACHE = {}


def extra_seeds():
    if _CACHE:
        return _CACHE
    from mc import classes, layers
    for name, cls, recs, extra in layers.layers():
        qn = classes.qualname(cls)
        lst = _CACHE.setdefault(qn, [])
        for r in recs:
            if len(r) <= 600 and r not in lst:
                lst.append(bytes(r))
    # BER spellings of the LDAP frames (the corpus and the composer only know DER): long-form lengths, and the
    # indefinite form on the constructed elements
    from mc.ref import misc_ref as ref
    req = _CACHE.setdefault('cryptoparser.tls.ldap.LDAPExtendedRequestStartTLS', [])
    resp = _CACHE.setdefault('cryptoparser.tls.ldap.LDAPExtendedResponseStartTLS', [])
    for forms in ({'msg': 4}, {'msg': 1, 'op': 4}, {'msg': -1}, {'op': -1}, {'msg': -1, 'op': -1}, {'msg': 4, 'op': -1}):
        for lst, b in ((req, ref.ldap_starttls_request(1, forms)), (resp, ref.ldap_starttls_response(0, 1, b'', b'', forms))):
            if b not in lst:
                lst.append(b)
    return _CACHE
