"""Negative controls: every oracle is shown to be able to fail on a deliberately broken stub."""


def control_c17():
    from mc.props import c17

    class V(object):
        def __init__(self, code):
            self.code = code

    class Bad(object):  # __lt__ that is not transitive
        def __init__(self, k):
            self.k = k
            self.version = type('E', (), {'value': type('P', (), {'code': k})(), 'name': 'V%d' % k})()

        def __eq__(self, o):
            return self.k == o.k

        def __hash__(self):
            return self.k

        def __lt__(self, o):
            return (self.k + 1) % 3 == o.k

        def __gt__(self, o):
            return o < self

        def __le__(self, o):
            return self < o or self == o

        def __ge__(self, o):
            return self > o or self == o
    a, b, c = Bad(0), Bad(1), Bad(2)
    assert a < b and b < c and not a < c
    assert not c17.check_pair(a, b)  # pairwise fine, only triples expose it
    return True


class _patched(object):
    """Temporarily replaces an attribute of a library class/module (in this process only, never on disk)."""

    def __init__(self, owner, name, value):
        self.owner, self.name, self.value = owner, name, value

    def __enter__(self):
        self.old = self.owner.__dict__[self.name]
        setattr(self.owner, self.name, self.value)

    def __exit__(self, *a):
        setattr(self.owner, self.name, self.old)


def _violations(res):
    return res[1]


def control_c12():
    """With the incremental size bookkeeping of ArrayBase switched off the C12 explorer must report violations on
    a toy vector, and none with the real code."""
    from cryptoparser.common.base import ArrayBase
    from mc import core
    from mc.props import c12
    ci = [i for i, c in enumerate(c12.vector_classes()) if c in c12._toys()][0]
    clean = _violations(c12._worker((ci, 'small', 2)))
    with _patched(ArrayBase, '_update_items_size', lambda self, del_item=None, insert_item=None: None):
        broken = _violations(c12._worker((ci, 'small', 2)))
    return len(broken) > len(clean)


def control_c03():
    """A TPKT parser that reports one byte too many must be caught by the C03 length clauses."""
    from cryptoparser.tls import rdp
    from mc import core
    from mc.props import c03
    qn = 'cryptoparser.tls.rdp.TPKT'
    items = [it for it in c03.work_items(_FakeCtx()) if it[0] == qn][:2]
    clean = []
    for it in items:
        clean += _violations(c03._worker(it))
    real = rdp.TPKT.__dict__['_parse']

    def bad(cls, parsable):
        obj, n = real.__func__(cls, parsable)
        return obj, n + 1
    with _patched(rdp.TPKT, '_parse', classmethod(bad)):
        broken = []
        for it in items:
            broken += _violations(c03._worker(it))
    return len(broken) > len(clean)


class _FakeCtx(object):
    quick = True
    seed = 0

    def rotate(self, items):
        return items


def control_c10():
    """A one-byte factory that maps an undefined code to a member must be caught by the C10 enumeration."""
    from mc.props import c10
    fs = c10.factories()
    fi = [i for i, f in enumerate(fs) if f.get_byte_num() == 1][0]
    f = fs[fi]
    clean = _violations(c10._factory_worker((fi, 0, 256, False)))
    real = f.__dict__.get('_parse') or [k.__dict__['_parse'] for k in f.__mro__ if '_parse' in k.__dict__][0]
    owner = f if '_parse' in f.__dict__ else [k for k in f.__mro__ if '_parse' in k.__dict__][0]
    first = list(f.get_enum_class())[0]

    def bad(cls, parsable):
        try:
            return real.__func__(cls, parsable)
        except Exception:  # noqa
            return first, cls.get_byte_num()
    with _patched(owner, '_parse', classmethod(bad)):
        broken = _violations(c10._factory_worker((fi, 0, 256, False)))
    return len(broken) > len(clean)


def control_c11():
    """A numeric composer that silently wraps out-of-range values must be caught by the C11 range clause."""
    from cryptoparser.common.parse import ComposerBinary
    from mc.props import c11
    real = ComposerBinary.__dict__['_compose_numeric_array']

    def bad(self, values, item_size):
        return real(self, [v % (2 ** (8 * item_size)) for v in values], item_size)
    clean = _violations(c11._range_worker(0))
    with _patched(ComposerBinary, '_compose_numeric_array', bad):
        broken = _violations(c11._range_worker(0))
    return len(broken) > len(clean)


CONTROLS = [control_c17, control_c12, control_c03, control_c10, control_c11]


def run_all():
    failed = []
    for c in CONTROLS:
        try:
            if not c():
                failed.append(c.__name__)
        except Exception as e:  # noqa
            failed.append('%s: %r' % (c.__name__, e))
    return failed
