"""Negative controls: every oracle is shown to be able to fail on a deliberately broken stub."""


def control_c17():
    from mc.props import c17

    class V(object):
        def __init__(self, code):
            self.code = code

    class Bad(object):  # __lt__ that is not transitive
        def __init__(self, k):
            self.k = k
            self.version = type('E', (), {'value': type('P', (), {'code': k})(), 'name': 'V%d' % k})()

        def __eq__(self, o):
            return self.k == o.k

        def __hash__(self):
            return self.k

        def __lt__(self, o):
            return (self.k + 1) % 3 == o.k

        def __gt__(self, o):
            return o < self

        def __le__(self, o):
            return self < o or self == o

        def __ge__(self, o):
            return self > o or self == o
    a, b, c = Bad(0), Bad(1), Bad(2)
    assert a < b and b < c and not a < c
    assert not c17.check_pair(a, b)  # pairwise fine, only triples expose it
    return True


CONTROLS = [control_c17]


def run_all():
    failed = []
    for c in CONTROLS:
        try:
            if not c():
                failed.append(c.__name__)
        except Exception as e:  # noqa
            failed.append('%s: %r' % (c.__name__, e))
    return failed
