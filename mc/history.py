"""Pristine-interpreter histories: what a parse (and an observer of its result) answers must not depend on what the
process parsed before.

A child interpreter (python -m mc.history) imports the library from VERIF_REPO, parses a list of *first* inputs
(outcomes ignored), then evaluates a list of *then* inputs and prints one line per input.  Nothing else is parsed in
that process - in particular not the corpus - so the child starts from the state a fresh user process has.  The
parent compares the lines of "then after first" with the lines of "then alone".

An input is [class qualified name, hex bytes, observer]; observers: dump (digest of the canonical dump), compose,
ja3, hassh, fingerprints, json (as_json + as_markdown).
"""
import hashlib
import json
import os
import subprocess
import sys

from mc import canon, classes, core


def _observe(o, how):
    if how == 'ja3':
        return str(o.ja3())
    if how == 'hassh':
        return '%s/%s' % (o.hassh, o.hassh_server)
    if how == 'fingerprints':
        return hashlib.md5(repr(sorted((str(k), v) for k, v in o.fingerprints.items())).encode()).hexdigest()[:16]
    if how == 'compose':
        return hashlib.md5(bytes(o.compose())).hexdigest()[:16]
    if how == 'json':
        return hashlib.md5((o.as_json() + '\x00' + o.as_markdown()).encode('utf-8', 'replace')).hexdigest()[:16]
    d = hashlib.md5(repr(canon.dump(o, eq=True)).encode()).hexdigest()[:16]
    try:
        d += ':' + hashlib.md5(bytes(o.compose())).hexdigest()[:8]
    except Exception as e:  # noqa
        d += ':compose-' + type(e).__name__
    return d


def child_main():
    core.import_repo()
    job = json.load(sys.stdin)
    for qn, hx in job['first']:
        try:
            classes.class_by_name(qn).parse_exact_size(bytes.fromhex(hx))
        except Exception:  # noqa
            pass
    for item in job['then']:
        qn, hx = item[0], item[1]
        how = item[2] if len(item) > 2 else 'dump'
        try:
            o = classes.class_by_name(qn).parse_exact_size(bytes.fromhex(hx))
            line = _observe(o, how)
        except Exception as e:  # noqa
            line = 'EXC:' + type(e).__name__
        sys.stdout.write(line.replace('\n', ' ') + '\n')


def run_history(first, then):
    """-> list of result lines for `then` (one pristine child process)."""
    out = subprocess.run([sys.executable, '-m', 'mc.history'], cwd=core.VERIF,
                         input=json.dumps({'first': first, 'then': then}).encode(), stdout=subprocess.PIPE,
                         stderr=subprocess.PIPE, timeout=900, env=dict(os.environ, PYTHONHASHSEED='0', TZ='UTC'))
    if out.returncode != 0:
        raise RuntimeError('history child failed: %s' % out.stderr.decode()[-400:])
    lines = out.stdout.decode().split('\n')[:-1]
    if len(lines) != len(then):
        raise RuntimeError('history child printed %d lines for %d inputs' % (len(lines), len(then)))
    return lines


def _job(args):
    return run_history(args[0], args[1])


def class_prefixes(keep=None, per_class=4):
    """{class qualified name: [[qn, hex]...]} - the accepted corpus seeds of every class (shortest first)."""
    out = {}
    for q, b, o in classes.corpus():
        if o != 'ok' or (keep is not None and not keep(q)):
            continue
        out.setdefault(q, [])
        if b not in [bytes.fromhex(h) for _, h in out[q]]:
            out[q].append([q, b.hex()])
    for q in out:
        out[q].sort(key=lambda t: len(t[1]))
        out[q] = out[q][:per_class]
    return out


def explore(ctx, then, prefixes, label, sig, orders=('forward', 'reverse')):
    """`then` alone versus `then` after every single-class prefix and after all prefixes together (in the given
    orders).  A difference is reported once per (label, poisoning class) with signature sig(first_label)."""
    import multiprocessing
    names = sorted(prefixes)
    jobs = [('alone', [])] + [(q, prefixes[q]) for q in names]
    every = [it for q in names for it in prefixes[q]]
    if 'forward' in orders:
        jobs.append(('everything', every))
    if 'reverse' in orders:
        jobs.append(('everything-reversed', every[::-1]))
    pool = multiprocessing.get_context('fork').Pool(core.NPROC)
    try:
        res = pool.map(_job, [(first, then) for _, first in jobs])
    finally:
        pool.terminate()
        pool.join()
    base = res[0]
    ctx.count('history_processes', len(jobs))
    ctx.count('transitions', len(jobs) * len(then))
    for (first_label, first), lines in zip(jobs, res):
        ctx.state_hashes.add(core.h64('history', label, first_label))
        if first_label == 'alone':
            continue
        for item, l0, l1 in zip(then, base, lines):
            if l0 != l1:
                short = first_label.rsplit('.', 1)[-1]
                ctx.violation({'signature': sig(short),
                               'what': '%s: input %s... answers %s in a fresh process but %s after %s was parsed in '
                                       'the same process' % (label, item[1][:40], l0, l1, short),
                               'witness': {'kind': 'pristine_history', 'first': first if len(first) <= 8 else first[:8],
                                           'first_label': first_label, 'then': item, 'alone': l0, 'after': l1}})
                break
    ctx.sample({'kind': 'pristine_history', 'label': label, 'then_inputs': len(then), 'prefix_classes': len(names),
                'processes': len(jobs)})


def explore_orders(ctx, label, sig, keep=None, per_class=3, orders=('forward', 'reverse', 'byhash')):
    """Every accepted corpus seed of every class, observed (dump + compose digest) (a) with only the seeds of its own
    class parsed before it, one pristine process per class, and (b) in one pristine process per global order over
    all classes.  The answer for an input must be the same everywhere."""
    import multiprocessing
    prefixes = class_prefixes(keep, per_class)
    names = sorted(prefixes)
    alone_jobs = [([], [it + ['dump'] for it in prefixes[q]]) for q in names]
    every = [it + ['dump'] for q in names for it in prefixes[q]]
    seqs = []
    for o in orders:
        if o == 'forward':
            seqs.append(every)
        elif o == 'reverse':
            seqs.append(every[::-1])
        else:
            seqs.append(sorted(every, key=lambda it: hashlib.md5((it[0] + it[1]).encode()).hexdigest()))
    pool = multiprocessing.get_context('fork').Pool(core.NPROC)
    try:
        res = pool.map(_job, alone_jobs + [([], sq) for sq in seqs])
    finally:
        pool.terminate()
        pool.join()
    base = {}
    for (first, then), lines in zip(alone_jobs, res[:len(alone_jobs)]):
        for it, ln in zip(then, lines):
            base[(it[0], it[1])] = ln
    ctx.count('history_processes', len(alone_jobs) + len(seqs))
    ctx.count('transitions', len(every) * (1 + len(seqs)))
    reported = set()
    for o, sq, lines in zip(orders, seqs, res[len(alone_jobs):]):
        ctx.state_hashes.add(core.h64('order', label, o))
        for it, ln in zip(sq, lines):
            b = base[(it[0], it[1])]
            if ln != b and it[0] not in reported:
                reported.add(it[0])
                short = it[0].rsplit('.', 1)[-1]
                ctx.violation({'signature': sig(short),
                               'what': '%s: %s input %s... answers %s when only its own class was parsed before, %s in '
                                       'the %s pass over all classes' % (label, short, it[1][:40], b, ln, o),
                               'witness': {'kind': 'order_history', 'cls': it[0], 'data': it[1], 'order': o,
                                           'alone': b, 'in_order': ln}})
    ctx.sample({'kind': 'order_history', 'label': label, 'inputs': len(every), 'classes': len(names),
                'orders': list(orders)})


def replay_one(w):
    """-> True when the recorded pair still differs."""
    a = run_history([], [w['then']])
    b = run_history(w['first'], [w['then']])
    return a != b


if __name__ == '__main__':
    child_main()
