"""canon.dump: the one canonical form used for state hashing, snapshots and field-by-field equality.

dump(obj)            -> nested tuples, including private attrs (_items, _items_size)
dump(obj, eq=True)   -> same, but bytes/bytearray and list/tuple are not distinguished (DESIGN §4)
"""
import datetime
import enum

import attr


def dump(obj, eq=False, _depth=0, _seen=None, tz=False):
    if _depth > 40:
        return ('<deep>',)
    if obj is None or isinstance(obj, (bool, int, float, str)):
        if isinstance(obj, enum.Enum):
            return ('enum', type(obj).__name__, obj.name)
        return obj
    if isinstance(obj, enum.Enum):
        return ('enum', type(obj).__name__, obj.name)
    if isinstance(obj, (bytes, bytearray, memoryview)):
        return ('b' if eq else type(obj).__name__, bytes(obj))
    if isinstance(obj, datetime.datetime):
        if obj.tzinfo is not None:
            try:
                off = obj.utcoffset()
            except ValueError:      # a tzinfo the datetime module itself refuses (offset of 24 hours or more)
                return ('dt-unusable', obj.replace(tzinfo=None).isoformat(), repr(obj.tzinfo))
            if eq and not tz:      # aware datetimes are equal when they denote the same instant (as == does)
                return ('dt-aware', (obj - off).replace(tzinfo=None).isoformat())
            return ('dt-aware', (obj - off).replace(tzinfo=None).isoformat(), off.total_seconds())
        return ('dt-naive', obj.isoformat())
    if isinstance(obj, datetime.timedelta):
        return ('td', obj.total_seconds())
    if isinstance(obj, (list, tuple)):
        return ('seq' if eq else type(obj).__name__,) + tuple(dump(x, eq, _depth + 1, None, tz) for x in obj)
    if isinstance(obj, (set, frozenset)):
        items = [dump(x, eq, _depth + 1, None, tz) for x in obj]
        return ('set',) + tuple(sorted(items, key=repr))
    if isinstance(obj, dict):
        items = [(dump(k, eq, _depth + 1, None, tz), dump(v, eq, _depth + 1, None, tz)) for k, v in obj.items()]
        if type(obj).__name__ == 'OrderedDict':     # order is part of the value (OrderedDict.__eq__)
            return ('odict',) + tuple(items)
        return ('dict',) + tuple(sorted(items, key=repr))
    if isinstance(obj, type):
        return ('type', obj.__module__, obj.__qualname__)
    if type(obj).__module__ in ('ipaddress', 'urllib3.util.url', 'decimal', 'fractions', 'uuid'):
        return ('val', type(obj).__qualname__, str(obj))
    if type(obj).__module__.startswith('cryptodatahub.common.key') and hasattr(obj, 'der'):
        # public keys / certificates wrap lazily-parsed asn1crypto structures: their identity is the DER encoding
        try:
            return ('der', type(obj).__qualname__, bytes(obj.der))
        except Exception:  # noqa
            pass
    if type(obj).__module__.startswith('asn1crypto.'):
        try:
            return ('asn1', type(obj).__qualname__, bytes(obj.dump()))
        except Exception:  # noqa
            return ('asn1', type(obj).__qualname__, repr(obj))
    if attr.has(type(obj)):
        out = [type(obj).__qualname__]
        for f in attr.fields(type(obj)):
            try:
                v = getattr(obj, f.name)
            except AttributeError:
                out.append((f.name, '<unset>'))
                continue
            if f.name == 'param':
                continue    # derived, class-level
            out.append((f.name, dump(v, eq, _depth + 1, None, tz)))
        extra = getattr(obj, '__dict__', None)
        if extra:
            names = {f.name for f in attr.fields(type(obj))}
            for k in sorted(extra):
                if k not in names and k != 'param':
                    out.append((k, dump(extra[k], eq, _depth + 1, None, tz)))
        return tuple(out)
    d = getattr(obj, '__dict__', None)
    if d is not None and not callable(obj):
        return (type(obj).__qualname__,) + tuple((k, dump(d[k], eq, _depth + 1, None, tz)) for k in sorted(d) if k != 'param')
    return ('repr', type(obj).__qualname__, repr(obj))


def equal(a, b):
    """Field-by-field equality = equal canonical dumps.  The library's own == is not used as an oracle:
    several value classes (LanguageTag, ParserCRLF, plain-Python message classes) define no __eq__, so == is
    object identity for them and for every attrs class that contains one."""
    return dump(a, eq=True) == dump(b, eq=True)


def first_diff(a, b, path=''):
    """Path of the first differing field between two eq-dumps (for signatures)."""
    if a == b:
        return None
    if isinstance(a, tuple) and isinstance(b, tuple) and a and b:
        if len(a) != len(b):
            return path + '#len'
        for i, (x, y) in enumerate(zip(a, b)):
            if x != y:
                if isinstance(x, tuple) and len(x) == 2 and isinstance(x[0], str) and isinstance(y, tuple) \
                        and len(y) == 2 and x[0] == y[0]:
                    return first_diff(x[1], y[1], path + '.' + x[0])
                if isinstance(x, tuple) and isinstance(y, tuple):
                    return first_diff(x, y, path + ('[%d]' % i if not path.endswith(']') else ''))
                return path or '.'
    return path or '.'


def _leaf_at(d, path_parts):
    return d


def leaf_kind(x):
    if isinstance(x, tuple) and x and isinstance(x[0], str):
        return x[0]
    if x is None:
        return 'None'
    return type(x).__name__


def diff_kind(a, b):
    """Short descriptor of the nature of the first difference between two eq-dumps, e.g. 'dt-naive->dt-aware',
    'None->str', 'str->str', 'len3->2'.  Makes known-finding signatures specific to one kind of disagreement."""
    if a == b:
        return 'same'
    if isinstance(a, tuple) and isinstance(b, tuple) and a and b and leaf_kind(a) == leaf_kind(b) \
            and leaf_kind(a) not in ('b', 'enum', 'dt-aware', 'dt-naive', 'td', 'val', 'der', 'asn1', 'repr', 'type'):
        if len(a) != len(b):
            return 'len%d->%d' % (min(len(a), 9) - 1, min(len(b), 9) - 1)
        for x, y in zip(a, b):
            if x != y:
                if isinstance(x, tuple) and len(x) == 2 and isinstance(x[0], str) and isinstance(y, tuple) \
                        and len(y) == 2 and x[0] == y[0] and not (isinstance(x[1], (bytes, str)) and x[0] in ('b',)):
                    return diff_kind(x[1], y[1])
                return diff_kind(x, y)
    ka, kb = leaf_kind(a), leaf_kind(b)
    if ka == kb == 'str':
        if a.lower() == b.lower():
            # an internationalised name (A-label or non-ASCII) is case-normalised by the idna codec itself; a plain
            # ASCII string that changes case is a different matter
            if 'xn--' in a.lower() or any(ord(c) > 127 for c in a + b):
                return 'str-case-idn'
            return 'str-case'
        return 'str->str'
    if ka == kb == 'b':
        return 'bytes%d->%d' % (min(len(a[1]), 99), min(len(b[1]), 99)) if len(a[1]) != len(b[1]) else 'bytes-content'
    return '%s->%s' % (ka, kb)


def generic_path_leaf(d0, d1):
    """Last field name of the first differing path, list indices removed (for signatures)."""
    import re
    p = first_diff(d0, d1) or '.'
    p = re.sub(r'\[\d+\]', '', p)
    return p.rsplit('.', 1)[-1].split('#')[0] or 'root'


def loosen(d):
    """Rewrites a dump so that an OrderedDict and a plain dict with the same items are indistinguishable (the
    comparison dict.__eq__ makes between the two): ('odict', items...) -> ('dict', sorted items...)."""
    if isinstance(d, tuple):
        if d and d[0] == 'odict':
            return ('dict',) + tuple(sorted((loosen(x) for x in d[1:]), key=repr))
        return tuple(loosen(x) for x in d)
    return d
