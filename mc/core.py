"""Runner kernel: tiers, seeds, worker pool, violation/known-finding handling, evidence, replay files.

Every property driver (mc/props/cXX.py) exposes

    run(ctx)            -> explores; reports through ctx (ctx.violation / ctx.count / ctx.sample)
    replay(ctx, wit)    -> re-executes ONE witness without the explorer; returns a violation-dict or None

A violation is a dict with at least {'signature': str, 'what': str, 'witness': {...}}.
The *signature* is the key used to match /verif/known_findings.json (DESIGN §6).
"""
import hashlib
import json
import multiprocessing
import os
import signal
import sys
import time
import traceback
import warnings

VERIF = os.path.dirname(os.path.dirname(os.path.abspath(__file__)))
REPO = os.environ.get('VERIF_REPO', '/repo')
NPROC = int(os.environ.get('VERIF_NPROC', '0')) or min(16, os.cpu_count() or 1)

EXIT_OK, EXIT_VIOLATION, EXIT_INTERNAL = 0, 1, 2


def setup_process_env():
    """Deterministic process-level configuration for everything that is not being enumerated."""
    os.environ.setdefault('PYTHONHASHSEED', '0')
    os.environ['TZ'] = 'UTC'
    time.tzset()
    warnings.simplefilter('ignore')
    if REPO not in sys.path:
        sys.path.insert(0, REPO)


def import_repo():
    setup_process_env()
    import cryptoparser  # noqa
    path = os.path.realpath(os.path.dirname(cryptoparser.__file__))
    if not path.startswith(os.path.realpath(REPO) + os.sep):
        sys.stderr.write('INTERNAL: cryptoparser imported from %s, not from %s\n' % (path, REPO))
        sys.exit(EXIT_INTERNAL)
    return cryptoparser


def ename(e):
    """Name of an exception as used in signatures and messages.  A subclass of one of the documented parse errors is
    named after the documented class it specialises: refining the error hierarchy does not change what is reported
    (and a listed finding keeps matching)."""
    try:
        from cryptodatahub.common.exception import InvalidValue
        from cryptoparser.common.exception import InvalidDataLength, InvalidType, NotEnoughData, TooMuchData
        for base in (NotEnoughData, TooMuchData, InvalidDataLength, InvalidValue, InvalidType):
            if isinstance(e, base):
                return base.__name__
    except Exception:  # noqa
        pass
    return type(e).__name__


def jsonable(x, depth=0):
    if depth > 8:
        return repr(x)[:200]
    if isinstance(x, (str, int, float, bool)) or x is None:
        if isinstance(x, int) and not isinstance(x, bool) and abs(x) > 2 ** 62:
            return hex(x)
        return x
    if isinstance(x, (bytes, bytearray)):
        return {'hex': bytes(x).hex()} if len(x) <= 4096 else {'hex_head': bytes(x[:256]).hex(), 'len': len(x)}
    if isinstance(x, dict):
        return {str(k): jsonable(v, depth + 1) for k, v in x.items()}
    if isinstance(x, (list, tuple, set, frozenset)):
        return [jsonable(v, depth + 1) for v in x]
    return repr(x)[:400]


class KnownFindings(object):
    def __init__(self, path=None):
        self.path = path or os.path.join(VERIF, 'known_findings.json')
        self.known = {}   # (property, signature) -> entry
        self.fixed = []
        if os.path.exists(self.path):
            with open(self.path) as fh:
                for e in json.load(fh)['findings']:
                    if e.get('status') == 'known':
                        self.known[(e['property'], e['signature'])] = e
                    else:
                        self.fixed.append(e)

    def match(self, pid, signature):
        return self.known.get((pid, signature))


class Ctx(object):
    """Per-run context handed to a property driver."""

    def __init__(self, pid, tier, seed, replay_only=False):
        self.pid = pid
        self.tier = tier
        self.seed = seed
        self.quick = tier == 'quick'
        self.t0 = time.time()
        self.findings = KnownFindings()
        self.counters = {}
        self.samples = []
        self.violations = {}        # signature -> (violation dict, count)
        self.known_hits = {}        # signature -> (violation dict, count)
        self.notes = {}
        self.assumptions = []
        self.exhaustive = True
        self.caps = []
        self.state_hashes = set()
        self.replay_only = replay_only
        self.budget_s = float(os.environ.get('VERIF_BUDGET_S', '0')) or None
        if not replay_only:
            # replay files describe the violations of the latest run only
            d = os.path.join(os.environ.get('VERIF_REPLAY_DIR') or os.path.join(VERIF, 'replay'), pid)
            if os.path.isdir(d):
                for sub in (d, os.path.join(d, 'known')):
                    if os.path.isdir(sub):
                        for f in os.listdir(sub):
                            if f.endswith('.json'):
                                os.unlink(os.path.join(sub, f))

    # ---- bookkeeping -------------------------------------------------------------------------
    def count(self, key, n=1):
        self.counters[key] = self.counters.get(key, 0) + n

    def merge_counts(self, d):
        for k, v in d.items():
            self.count(k, v)

    def sample(self, s, limit=12):
        if len(self.samples) < limit:
            self.samples.append(jsonable(s))

    def cap(self, what):
        self.exhaustive = False
        if what not in self.caps and len(self.caps) < 50:
            self.caps.append(what)

    def elapsed(self):
        return time.time() - self.t0

    def rotate(self, items):
        """VERIF_SEED only rotates the order in which work is handed out (DESIGN §3.3)."""
        items = list(items)
        if not items:
            return items
        k = self.seed % len(items)
        return items[k:] + items[:k]

    # ---- violations --------------------------------------------------------------------------
    def violation(self, v):
        sig = v['signature']
        if self.findings.match(self.pid, sig) is not None:
            tgt = self.known_hits
        else:
            tgt = self.violations
        if sig in tgt:
            old, n = tgt[sig]
            # keep the smallest witness (shortest JSON) so the report is the easiest to explain
            if _wsize(v) < _wsize(old):
                old = v
            tgt[sig] = (old, n + v.get('count', 1))
        else:
            tgt[sig] = (v, v.get('count', 1))

    def violations_from(self, vs):
        for v in vs:
            self.violation(v)

    # ---- pool --------------------------------------------------------------------------------
    def pmap(self, func, items, chunksize=1, nproc=None, fresh=False):
        """Run func(item) over items in a fork pool; func returns (counters, violations, samples, states)."""
        items = self.rotate(items)
        nproc = nproc or NPROC
        if (nproc <= 1 or len(items) <= 1) and not fresh:
            for it in items:
                self._absorb(_guard(func, it))
            return
        pool = multiprocessing.get_context('fork').Pool(max(nproc, 1), initializer=_worker_init,
                                                       maxtasksperchild=1 if fresh else None)
        try:
            for res in pool.imap_unordered(_Guarded(func), items, chunksize):
                self._absorb(res)
        finally:
            pool.terminate()
            pool.join()

    def _absorb(self, res):
        if res is None:
            return
        if isinstance(res, dict) and res.get('__cut__'):
            self.count('work_items_cut_by_watchdog')
            self.cap('work item %s cut by its watchdog; nothing it explored is counted' % res['__cut__'])
            return
        if isinstance(res, dict) and res.get('__internal_error__'):
            sys.stderr.write('INTERNAL ERROR in worker:\n%s\n' % res['__internal_error__'])
            sys.exit(EXIT_INTERNAL)
        counters, violations, samples, states = res
        self.merge_counts(counters or {})
        self.violations_from(violations or [])
        for s in (samples or []):
            self.sample(s)
        if states:
            self.state_hashes.update(states)

    # ---- finish ------------------------------------------------------------------------------
    def finish(self, states=None, transitions=None, rule='', distinct_outcomes=None, extra=None):
        wall = time.time() - self.t0
        nviol = 0
        out = []
        for sig, (v, n) in sorted(self.known_hits.items()):
            write_replay(self.pid, v, 'known')      # current witness of a listed finding (for triage; replayable)
            out.append('KNOWN-FINDING: property=%s %s :: %s (x%d)' % (self.pid, sig, v.get('what', ''), n))
        for sig, (v, n) in sorted(self.violations.items()):
            path = write_replay(self.pid, v)
            out.append('VIOLATION property=%s replay=%s' % (self.pid, path))
            out.append('  signature=%s count=%d :: %s' % (sig, n, v.get('what', '')))
            nviol += 1
        if states is None:
            states = len(self.state_hashes) or self.counters.get('states', 0)
        if transitions is None:
            transitions = self.counters.get('transitions', 0)
        coverage = {
            'states': int(states),
            'transitions': int(transitions),
            'traces_validated_against_impl': int(transitions),
            'evaluations': int(transitions),
            'distinct_nontrivial': int(states),
            'rule': rule,
            'samples': self.samples or ['(none)'],
            'exhaustive': bool(self.exhaustive),
            'caps_hit': self.caps,
            'counters': {k: int(v) for k, v in sorted(self.counters.items())},
            'known_findings_seen': sorted(self.known_hits),
            'explanation': 'explicit enumeration of the stated bounded space on the real implementation in %s; '
                           'every explored execution is an execution of the implementation' % REPO,
        }
        if distinct_outcomes is not None:
            coverage['distinct_outcomes'] = int(distinct_outcomes)
        if extra:
            coverage.update(jsonable(extra))
        if self.notes:
            coverage['notes'] = jsonable(self.notes)
        ev = {
            'property_id': self.pid,
            'tier': self.tier,
            'seed': int(self.seed),
            'level': 'model_checking',
            'coverage': coverage,
            'assumptions': self.assumptions,
            'wall_s': round(wall, 3),
            'violations': nviol,
        }
        evdir = os.environ.get('VERIF_EVIDENCE_DIR') or os.path.join(VERIF, 'evidence')
        os.makedirs(evdir, exist_ok=True)
        tmp = os.path.join(evdir, '%s.json.tmp' % self.pid)
        with open(tmp, 'w') as fh:
            json.dump(ev, fh, indent=1, sort_keys=True)
        os.replace(tmp, os.path.join(evdir, '%s.json' % self.pid))
        for line in out:
            print(line)
        print('%s tier=%s seed=%d states=%d transitions=%d exhaustive=%s known=%d violations=%d wall=%.1fs' % (
            self.pid, self.tier, self.seed, states, transitions, self.exhaustive, len(self.known_hits), nviol, wall))
        sys.stdout.flush()
        return EXIT_VIOLATION if nviol else EXIT_OK


def _wsize(v):
    try:
        return len(json.dumps(jsonable(v.get('witness'))))
    except Exception:  # noqa
        return 1 << 30


def write_replay(pid, v, sub=None):
    d = os.path.join(os.environ.get('VERIF_REPLAY_DIR') or os.path.join(VERIF, 'replay'), pid)
    if sub:
        d = os.path.join(d, sub)
    os.makedirs(d, exist_ok=True)
    sha = hashlib.sha1(v['signature'].encode()).hexdigest()[:16]
    path = os.path.join(d, sha + '.json')
    with open(path, 'w') as fh:
        json.dump({'property': pid, 'signature': v['signature'], 'what': v.get('what', ''),
                   'witness': jsonable(v.get('witness'))}, fh, indent=1, sort_keys=True)
    return path


def _worker_init():
    signal.signal(signal.SIGINT, signal.SIG_IGN)
    warnings.simplefilter('ignore')


class _Guarded(object):
    def __init__(self, func):
        self.func = func

    def __call__(self, item):
        return _guard(self.func, item)


def _guard(func, item):
    try:
        return func(item)
    except Timeout:     # a worker that does not handle its own watchdog: the item is cut, the run reported as capped
        return {'__cut__': repr(item)[:200]}
    except BaseException:  # noqa - harness bug: must be loud, never a silent pass
        return {'__internal_error__': 'item=%r\n%s' % (repr(item)[:300], traceback.format_exc())}


class Acc(object):
    """Accumulator used inside worker functions."""

    def __init__(self):
        self.counters = {}
        self.violations = {}
        self.samples = []
        self.states = set()

    def count(self, k, n=1):
        self.counters[k] = self.counters.get(k, 0) + n

    def state(self, h):
        self.states.add(h)

    def sample(self, s, limit=2):
        if len(self.samples) < limit:
            self.samples.append(jsonable(s))

    def violation(self, signature, what, witness):
        if signature in self.violations:
            v = self.violations[signature]
            v['count'] += 1
            if _wsize({'witness': witness}) < _wsize(v):
                v['witness'] = jsonable(witness)
                v['what'] = what
        else:
            self.violations[signature] = {'signature': signature, 'what': what, 'witness': jsonable(witness),
                                          'count': 1}

    def result(self):
        return self.counters, list(self.violations.values()), self.samples, self.states


def h64(*parts):
    m = hashlib.blake2b(digest_size=8)
    for p in parts:
        if isinstance(p, str):
            p = p.encode()
        elif not isinstance(p, (bytes, bytearray)):
            p = repr(p).encode()
        m.update(p)
        m.update(b'\x00')
    return m.digest()


class Timeout(BaseException):
    """Raised by the watchdog's SIGALRM handler.  Not an Exception: the drivers' many `except Exception` clauses (which
    turn a library failure into an outcome) must never turn a harness budget into a verdict about the library."""


def _alarm(signum, frame):
    raise Timeout()


class watchdog(object):
    def __init__(self, seconds):
        self.seconds = seconds

    def __enter__(self):
        self.old = signal.signal(signal.SIGALRM, _alarm)
        signal.alarm(self.seconds)

    def __exit__(self, *a):
        signal.alarm(0)
        signal.signal(signal.SIGALRM, self.old)
        return False
