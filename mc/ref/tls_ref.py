"""Reference encoders for SSL 2.0/3.0 and TLS structures, written from the specifications:

RFC 5246 s4.3 (vectors: the length prefix is as wide as needed for the ceiling), s6.2.1 (record), s7.2 (alert),
s7.1 (change cipher spec), s7.4 (handshake messages), RFC 2246 s7.4.4 (TLS 1.0 certificate request),
RFC 6066 (server_name, status_request), RFC 8422 (supported_groups, ec_point_formats), RFC 5077, RFC 5746,
RFC 7301 (ALPN), RFC 7366, RFC 7627, RFC 7685 (padding), RFC 8446 s4.2 (supported_versions, key_share,
psk_key_exchange_modes, signature_algorithms(_cert)), RFC 8449, RFC 8472 (token binding), RFC 8879, RFC 6962 s3.3,
draft-agl-tls-nextprotoneg-04, draft-hickman-netscape-ssl-00 (SSL 2.0).
Plain values in, bytes out (and a few decoders).
"""


def u8(v):
    return int(v).to_bytes(1, 'big')


def u16(v):
    return int(v).to_bytes(2, 'big')


def u24(v):
    return int(v).to_bytes(3, 'big')


def u32(v):
    return int(v).to_bytes(4, 'big')


def u64(v):
    return int(v).to_bytes(8, 'big')


def vec(body, ceiling):
    """RFC 5246 s4.3: variable-length vector; the length field is as many bytes as the ceiling needs."""
    body = bytes(body)
    width = 1
    while 256 ** width <= ceiling:
        width += 1
    return len(body).to_bytes(width, 'big') + body


# ---- record layer ----------------------------------------------------------------------------------------------
def record(content_type, version, fragment):
    return u8(content_type) + u16(version) + u16(len(fragment)) + bytes(fragment)


def ssl2_record(body, padding=0, three_byte=False):
    if three_byte or padding:
        n = len(body) + padding
        return bytes(((n >> 8) & 0x3f, n & 0xff, padding)) + bytes(body) + b'\x00' * padding
    n = len(body)
    return bytes((0x80 | (n >> 8), n & 0xff)) + bytes(body)


def alert(level, description):
    return u8(level) + u8(description)


def change_cipher_spec():
    return b'\x01'


def handshake(msg_type, body):
    return u8(msg_type) + u24(len(body)) + bytes(body)


# ---- handshake bodies ----------------------------------------------------------------------------------------------
def extensions_block(exts):
    """exts: list of (type, data) or None (no extensions block at all)"""
    if exts is None:
        return b''
    return vec(b''.join(extension(t, d) for t, d in exts), 2 ** 16 - 1)


def extension(ext_type, data):
    return u16(ext_type) + vec(data, 2 ** 16 - 1)


def client_hello(version, gmt_unix_time, random28, session_id, suites, compressions, exts):
    body = u16(version) + u32(gmt_unix_time) + bytes(random28) + vec(session_id, 32) + \
        vec(b''.join(u16(s) for s in suites), 2 ** 16 - 2) + vec(bytes(compressions), 2 ** 8 - 1) + \
        extensions_block(exts)
    return handshake(1, body)


def server_hello(version, gmt_unix_time, random28, session_id, suite, compression, exts, msg_type=2):
    body = u16(version) + u32(gmt_unix_time) + bytes(random28) + vec(session_id, 32) + u16(suite) + \
        u8(compression) + extensions_block(exts)
    return handshake(msg_type, body)


def certificate(chain):
    return handshake(11, vec(b''.join(vec(c, 2 ** 24 - 1) for c in chain), 2 ** 24 - 1))


def certificate_request(types, sig_algs, authorities):
    body = vec(bytes(types), 2 ** 8 - 1)
    if sig_algs is not None:
        body += vec(b''.join(u16(s) for s in sig_algs), 2 ** 16 - 2)
    body += vec(b''.join(vec(dn, 2 ** 16 - 1) for dn in authorities), 2 ** 16 - 1)
    return handshake(13, body)


def certificate_status(status_type, response):
    return handshake(22, u8(status_type) + vec(response, 2 ** 24 - 1))


def server_hello_done():
    return handshake(14, b'')


def server_key_exchange(params):
    return handshake(12, params)


# ---- SSL 2.0 ------------------------------------------------------------------------------------------------------
def ssl2_client_hello(cipher_kinds, session_id, challenge, version=0x0002):
    return u8(1) + u16(version) + u16(3 * len(cipher_kinds)) + u16(len(session_id)) + u16(len(challenge)) + \
        b''.join(u24(k) for k in cipher_kinds) + bytes(session_id) + bytes(challenge)


def ssl2_server_hello(session_id_hit, certificate_, cipher_kinds, connection_id, version=0x0002, cert_type=1):
    return u8(4) + u8(1 if session_id_hit else 0) + u8(cert_type) + u16(version) + u16(len(certificate_)) + \
        u16(3 * len(cipher_kinds)) + u16(len(connection_id)) + bytes(certificate_) + \
        b''.join(u24(k) for k in cipher_kinds) + bytes(connection_id)


def ssl2_error(code):
    return u8(0) + u16(code)


# ---- extension bodies ----------------------------------------------------------------------------------------------
def ext_server_name(host_name_bytes, name_type=0):
    return vec(u8(name_type) + vec(host_name_bytes, 2 ** 16 - 1), 2 ** 16 - 1)


def ext_supported_groups(groups):
    return vec(b''.join(u16(g) for g in groups), 2 ** 16 - 1)


def ext_ec_point_formats(formats):
    return vec(bytes(formats), 2 ** 8 - 1)


def ext_signature_algorithms(algs):
    return vec(b''.join(u16(a) for a in algs), 2 ** 16 - 2)


def ext_renegotiation_info(data):
    return vec(data, 2 ** 8 - 1)


def ext_alpn(names):
    return vec(b''.join(vec(n, 2 ** 8 - 1) for n in names), 2 ** 16 - 1)


def ext_npn_server(names):
    return b''.join(vec(n, 2 ** 8 - 1) for n in names)


def ext_supported_versions_client(versions):
    return vec(b''.join(u16(v) for v in versions), 254)


def ext_supported_versions_server(version):
    return u16(version)


def ext_key_share_client(entries):
    return vec(b''.join(u16(g) + vec(k, 2 ** 16 - 1) for g, k in entries), 2 ** 16 - 1)


def ext_key_share_server(group, key):
    return u16(group) + vec(key, 2 ** 16 - 1)


def ext_key_share_hrr(group):
    return u16(group)


def ext_psk_key_exchange_modes(modes):
    return vec(bytes(modes), 255)


def ext_status_request(responder_ids, request_extensions, status_type=1):
    return u8(status_type) + vec(b''.join(vec(r, 2 ** 16 - 1) for r in responder_ids), 2 ** 16 - 1) + \
        vec(request_extensions, 2 ** 16 - 1)


def ext_padding(n):
    return b'\x00' * n


def ext_record_size_limit(v):
    return u16(v)


def ext_compress_certificate(algs):
    return vec(b''.join(u16(a) for a in algs), 2 ** 8 - 2)


def ext_token_binding(major, minor, params):
    return u8(major) + u8(minor) + vec(bytes(params), 2 ** 8 - 1)


def ext_sct_list(scts):
    return vec(b''.join(vec(s, 2 ** 16 - 1) for s in scts), 2 ** 16 - 1)


def sct(version, log_id, timestamp_ms, extensions_, hash_alg, sig_alg, signature):
    """RFC 6962 s3.2"""
    return u8(version) + bytes(log_id) + u64(timestamp_ms) + vec(extensions_, 2 ** 16 - 1) + u8(hash_alg) + \
        u8(sig_alg) + vec(signature, 2 ** 16 - 1)


# ---- independent client hello reader (used by the JA3 reference) ------------------------------------------------------
class Reader(object):
    def __init__(self, data):
        self.d = bytes(data)
        self.p = 0

    def take(self, n):
        if self.p + n > len(self.d):
            raise ValueError('short')
        b = self.d[self.p:self.p + n]
        self.p += n
        return b

    def u(self, n):
        return int.from_bytes(self.take(n), 'big')

    def vec(self, width):
        return self.take(self.u(width))

    def more(self):
        return self.p < len(self.d)


def read_client_hello(data):
    """-> dict(version, session_id, suites[int], compressions[int], extensions[(type, data)] or None)"""
    r = Reader(data)
    assert r.u(1) == 1
    body = Reader(r.vec(3))
    out = {'version': body.u(2)}
    body.take(32)
    out['session_id'] = body.vec(1)
    s = Reader(body.vec(2))
    out['suites'] = []
    while s.more():
        out['suites'].append(s.u(2))
    out['compressions'] = list(body.vec(1))
    out['extensions'] = None
    if body.more():
        e = Reader(body.vec(2))
        out['extensions'] = []
        while e.more():
            t = e.u(2)
            out['extensions'].append((t, e.vec(2)))
    return out
