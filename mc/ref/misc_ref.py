"""Reference encoders for the opportunistic-TLS application messages.

MySQL: dev.mysql.com "Protocol::HandshakeV10", "Protocol::SSLRequest", "MySQL Packets".
RDP:   RFC 1006 (TPKT), ITU-T X.224 s13.3/13.4 (CR/CC TPDU), MS-RDPBCGR 2.2.1.1.1 / 2.2.1.2.1.
OpenVPN: OpenVPN protocol (P_CONTROL_* header, TCP length prefix).
PostgreSQL: "SSLRequest" in the frontend/backend protocol.  LDAP: RFC 4511 s4.12 / s4.14 (BER/DER).
"""


def le(v, n):
    return int(v).to_bytes(n, 'little')


def be(v, n):
    return int(v).to_bytes(n, 'big')


# ---- MySQL ---------------------------------------------------------------------------------------------------------
def mysql_packet(seq, payload):
    return le(len(payload), 3) + bytes((seq,)) + bytes(payload)


def mysql_handshake_v10(protocol_version, server_version, connection_id, auth1, capabilities, character_set, status,
                        auth2=None, auth_plugin_name=None):
    PLUGIN_AUTH = 0x00080000
    out = bytes((protocol_version,)) + server_version.encode('ascii') + b'\x00' + le(connection_id, 4) + bytes(auth1)
    out += b'\x00' + le(capabilities & 0xffff, 2) + bytes((character_set,)) + le(status, 2) + le(capabilities >> 16, 2)
    if capabilities & PLUGIN_AUTH:
        out += bytes((8 + len(auth2 or b''),))
    else:
        out += b'\x00'
    out += b'\x00' * 10
    if auth2:
        out += bytes(auth2)
    if capabilities & PLUGIN_AUTH:
        out += (auth_plugin_name or '').encode('ascii') + b'\x00'
    return out


def mysql_ssl_request(capabilities, max_packet_size, character_set=None):
    PROTOCOL_41 = 0x0200
    if capabilities & PROTOCOL_41:
        return le(capabilities, 4) + le(max_packet_size, 4) + bytes((character_set,)) + b'\x00' * 23
    return le(capabilities, 2) + le(max_packet_size, 3)


# ---- RDP -----------------------------------------------------------------------------------------------------------
def tpkt(payload, version=3):
    return bytes((version, 0)) + be(len(payload) + 4, 2) + bytes(payload)


def x224_connection(code, dst_ref, src_ref, class_option, user_data):
    """X.224 s13.3.1: LI, CR/CC code + CDT, DST-REF, SRC-REF, CLASS OPTION, variable part + user data"""
    body = bytes((code << 4,)) + be(dst_ref, 2) + be(src_ref, 2) + bytes((class_option,)) + bytes(user_data)
    return bytes((len(body),)) + body


def rdp_negotiation(pdu_type, flags, protocols):
    return bytes((pdu_type, flags)) + le(8, 2) + le(protocols, 4)


# ---- OpenVPN -------------------------------------------------------------------------------------------------------
def openvpn_header(opcode, session_id, acks, remote_session_id, key_id=0):
    out = bytes(((opcode << 3) | key_id,)) + be(session_id, 8) + bytes((len(acks),))
    if acks:
        out += b''.join(be(a, 4) for a in acks) + be(remote_session_id, 8)
    return out


def openvpn_control(opcode, session_id, acks, remote_session_id, packet_id, payload=b''):
    return openvpn_header(opcode, session_id, acks, remote_session_id) + be(packet_id, 4) + bytes(payload)


def openvpn_ack(session_id, acks, remote_session_id):
    return openvpn_header(5, session_id, acks, remote_session_id)


def openvpn_tcp(payload):
    return be(len(payload), 2) + bytes(payload)


# ---- PostgreSQL ------------------------------------------------------------------------------------------------------
def pg_ssl_request():
    return be(8, 4) + be(80877103, 4)


# ---- LDAP (DER) --------------------------------------------------------------------------------------------------------
def der_len(n):
    if n < 0x80:
        return bytes((n,))
    b = n.to_bytes((n.bit_length() + 7) // 8, 'big')
    return bytes((0x80 | len(b),)) + b


def ber_len(n, octets):
    """X.690 8.1.3: definite length; octets == 0 is the short / minimal form, k > 0 the long form with k length octets
    (BER allows more than the minimum; RFC 4511 s5.1 only excludes the indefinite form)."""
    if octets == 0:
        return der_len(n)
    return bytes((0x80 | octets,)) + n.to_bytes(octets, 'big')


def tlv(tag, content, octets=0):
    """octets == -1: the indefinite form (X.690 8.1.3.6; constructed encodings only) - not allowed in LDAP (RFC 4511
    s5.1), used only as input for the byte-level checks: if a parser accepts it, n must still be exact."""
    if octets == -1:
        return bytes((tag, 0x80)) + bytes(content) + b'\x00\x00'
    return bytes((tag,)) + ber_len(len(content), octets) + bytes(content)


def der_int(v):
    n = max(1, (v.bit_length() + 8) // 8)
    return v.to_bytes(n, 'big', signed=True)


def ldap_starttls_request(message_id=1, forms=None):
    """forms: {'msg' | 'id' | 'op' | 'name': number of length octets} (default: minimal)"""
    f = forms or {}
    oid = b'1.3.6.1.4.1.1466.20037'
    return tlv(0x30, tlv(0x02, der_int(message_id), f.get('id', 0)) +
               tlv(0x77, tlv(0x80, oid, f.get('name', 0)), f.get('op', 0)), f.get('msg', 0))


def ldap_starttls_response(result_code, message_id=1, matched_dn=b'', diagnostic=b'', forms=None, response_name=None):
    """forms: {'msg' | 'id' | 'op' | 'code' | 'dn' | 'diag' | 'name': number of length octets} (default: minimal)"""
    f = forms or {}
    op = (tlv(0x0a, der_int(result_code), f.get('code', 0)) + tlv(0x04, matched_dn, f.get('dn', 0)) +
          tlv(0x04, diagnostic, f.get('diag', 0)))
    if response_name is not None:
        op += tlv(0x8a, response_name, f.get('name', 0))
    return tlv(0x30, tlv(0x02, der_int(message_id), f.get('id', 0)) + tlv(0x78, op, f.get('op', 0)), f.get('msg', 0))
