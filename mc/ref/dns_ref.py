"""Reference encoders for DNS RDATA, from RFC 1035 s3.1 / s3.3.9 / s3.3.14, RFC 4034 s2-5 and Appendix B (+B.1),
RFC 3110 (RSA), RFC 2536 (DSA), RFC 6605 (ECDSA), RFC 5933 (GOST), RFC 8080 (EdDSA)."""


def name(labels):
    """RFC 1035 s3.1: length octet + label octets, terminated by the zero-length root label"""
    out = b''
    for l in labels:
        b = l if isinstance(l, bytes) else l.encode('idna')
        assert 0 < len(b) < 64
        out += bytes((len(b),)) + b
    return out + b'\x00'


def dnskey(flags, protocol, algorithm, public_key):
    return flags.to_bytes(2, 'big') + bytes((protocol, algorithm)) + bytes(public_key)


def key_rsa(exponent, modulus, modulus_len=None):
    """RFC 3110 s2: exponent length as one octet, or zero followed by two octets if > 255"""
    e = exponent.to_bytes(max(1, (exponent.bit_length() + 7) // 8), 'big')
    n = modulus.to_bytes(modulus_len or max(1, (modulus.bit_length() + 7) // 8), 'big')
    if len(e) > 255:
        return b'\x00' + len(e).to_bytes(2, 'big') + e + n
    return bytes((len(e),)) + e + n


def key_dsa(t, q, p, g, y):
    """RFC 2536 s2"""
    size = 64 + t * 8
    return bytes((t,)) + q.to_bytes(20, 'big') + p.to_bytes(size, 'big') + g.to_bytes(size, 'big') + y.to_bytes(size, 'big')


def key_ecdsa(x, y, size):
    """RFC 6605 s4: the uncompressed form x | y without the 0x04 prefix"""
    return x.to_bytes(size, 'big') + y.to_bytes(size, 'big')


def key_tag(rdata, algorithm=None):
    """RFC 4034 Appendix B; B.1 for algorithm 1 (RSA/MD5)"""
    rdata = bytes(rdata)
    if algorithm == 1:
        return int.from_bytes(rdata[-3:-1], 'big')
    ac = 0
    for i, b in enumerate(rdata):
        ac += b if i & 1 else b << 8
    ac += (ac >> 16) & 0xffff
    return ac & 0xffff


def ds(key_tag_, algorithm, digest_type, digest):
    return key_tag_.to_bytes(2, 'big') + bytes((algorithm, digest_type)) + bytes(digest)


def rrsig(type_covered, algorithm, labels, ttl, expiration, inception, key_tag_, signer_labels, signature):
    return type_covered.to_bytes(2, 'big') + bytes((algorithm, labels)) + ttl.to_bytes(4, 'big') + \
        expiration.to_bytes(4, 'big') + inception.to_bytes(4, 'big') + key_tag_.to_bytes(2, 'big') + \
        name(signer_labels) + bytes(signature)


def mx(preference, exchange_labels):
    return preference.to_bytes(2, 'big') + name(exchange_labels)


def txt(strings):
    out = b''
    for s in strings:
        b = s if isinstance(s, bytes) else s.encode('ascii')
        assert len(b) < 256
        out += bytes((len(b),)) + b
    return out
