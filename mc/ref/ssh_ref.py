"""Reference encoders/decoders for SSH, written from the RFC text (never from the library's code).

RFC 4251 s5 (data types), RFC 4253 s4.2 (identification string), s6 (binary packet), s6.6 (key formats),
s7.1 (KEXINIT), s8 (KEXDH), s11 (disconnect / unimplemented), RFC 4419 (group exchange), RFC 5656 s3.1 (ECDSA keys),
RFC 8709 s4 (Ed25519 keys), OpenSSH PROTOCOL.certkeys (certificates).
All functions take and return plain Python values (int, bytes, str, list, dict).
"""
import hashlib
import base64


# ---- RFC 4251 s5 ---------------------------------------------------------------------------------------------
def byte(v):
    return bytes((v,))


def boolean(v):
    return b'\x01' if v else b'\x00'


def uint32(v):
    return v.to_bytes(4, 'big')


def uint64(v):
    return v.to_bytes(8, 'big')


def string(b):
    if isinstance(b, str):
        b = b.encode('utf-8')
    return uint32(len(b)) + bytes(b)


def mpint(v):
    """two's complement, big-endian, no unnecessary leading bytes; zero is the empty string"""
    if v == 0:
        return string(b'')
    n = ((v if v >= 0 else ~v).bit_length() + 8) // 8
    return string(v.to_bytes(n, 'big', signed=True))


def name_list(names):
    return string(','.join(names).encode('ascii'))


class Reader(object):
    def __init__(self, data):
        self.data = bytes(data)
        self.pos = 0

    def take(self, n):
        if self.pos + n > len(self.data):
            raise ValueError('short')
        b = self.data[self.pos:self.pos + n]
        self.pos += n
        return b

    def byte(self):
        return self.take(1)[0]

    def uint32(self):
        return int.from_bytes(self.take(4), 'big')

    def uint64(self):
        return int.from_bytes(self.take(8), 'big')

    def string(self):
        return self.take(self.uint32())

    def mpint(self):
        b = self.string()
        return int.from_bytes(b, 'big', signed=True) if b else 0

    def name_list(self):
        b = self.string()
        return b.decode('ascii').split(',') if b else []

    def rest(self):
        return self.take(len(self.data) - self.pos)

    def done(self):
        return self.pos == len(self.data)


# ---- RFC 4253 s4.2 ---------------------------------------------------------------------------------------------
def banner(proto, software, comment=None, crlf=True):
    line = 'SSH-%s-%s' % (proto, software)
    if comment is not None:
        line += ' ' + comment
    return line.encode('ascii') + (b'\r\n' if crlf else b'\n')


def decode_banner(data):
    line = bytes(data)
    assert line.endswith(b'\n')
    line = line[:-1]
    if line.endswith(b'\r'):
        line = line[:-1]
    text = line.decode('ascii')
    assert text.startswith('SSH-')
    proto, _, rest = text[4:].partition('-')
    software, sp, comment = rest.partition(' ')
    return {'proto': proto, 'software': software, 'comment': comment if sp else None}


# ---- RFC 4253 s6 -------------------------------------------------------------------------------------------------
def decode_packet(data):
    """-> dict(packet_length, padding_length, payload, padding); raises on structural errors"""
    r = Reader(data)
    plen = r.uint32()
    pad = r.byte()
    payload = r.take(plen - pad - 1)
    padding = r.take(pad)
    if not r.done():
        raise ValueError('trailing')
    return {'packet_length': plen, 'padding_length': pad, 'payload': payload, 'padding': padding}


def packet_rule_violations(data, payload_len):
    """RFC 4253 s6: total length multiple of 8 (block size, minimum 8); 4 <= padding <= 255;
    packet_length = padding_length byte + payload + padding.  Minimal padding is NOT demanded."""
    out = []
    try:
        d = decode_packet(data)
    except Exception as e:  # noqa
        return ['undecodable:%s' % e]
    if len(data) % 8:
        out.append('total_not_multiple_of_8')
    if not 4 <= d['padding_length'] <= 255:
        out.append('padding_out_of_range')
    if d['packet_length'] != 1 + payload_len + d['padding_length']:
        out.append('packet_length_mismatch')
    if len(d['payload']) != payload_len:
        out.append('payload_length')
    return out


# ---- messages ------------------------------------------------------------------------------------------------------
def kexinit(cookie, lists, first_kex_packet_follows=False, reserved=0):
    assert len(cookie) == 16 and len(lists) == 10
    return byte(20) + bytes(cookie) + b''.join(name_list(l) for l in lists) + \
        boolean(first_kex_packet_follows) + uint32(reserved)


def decode_kexinit(data):
    r = Reader(data)
    assert r.byte() == 20
    cookie = r.take(16)
    lists = [r.name_list() for _ in range(10)]
    follows = r.byte()
    reserved = r.uint32()
    assert r.done()
    return {'cookie': cookie, 'lists': lists, 'first_kex_packet_follows': bool(follows), 'reserved': reserved}


def disconnect(reason, description, language):
    return byte(1) + uint32(reason) + string(description.encode('utf-8')) + string(language.encode('ascii'))


def unimplemented(seq):
    return byte(3) + uint32(seq)


def newkeys():
    return byte(21)


def kexdh_init(e_bytes, code=30):
    return byte(code) + string(e_bytes)


def kexdh_reply(host_key_blob, f_bytes, signature, code=31):
    return byte(code) + string(host_key_blob) + string(f_bytes) + string(signature)


def gex_request(gmin, n, gmax):
    return byte(34) + uint32(gmin) + uint32(n) + uint32(gmax)


def gex_group(p_bytes, g_bytes):
    return byte(31) + string(p_bytes) + string(g_bytes)


# ---- RFC 4253 s6.6 / RFC 5656 / RFC 8709 keys ---------------------------------------------------------------------------
def key_rsa(e, n, name='ssh-rsa'):
    return string(name) + mpint(e) + mpint(n)


def key_dss(p, q, g, y, name='ssh-dss'):
    return string(name) + mpint(p) + mpint(q) + mpint(g) + mpint(y)


def key_ecdsa(curve_id, q_octets, name=None):
    return string(name or ('ecdsa-sha2-' + curve_id)) + string(curve_id) + string(q_octets)


def key_ed25519(key, name='ssh-ed25519'):
    return string(name) + string(key)


def decode_key(blob):
    r = Reader(blob)
    name = r.string().decode('ascii')
    if name == 'ssh-rsa':
        d = {'type': 'rsa', 'e': r.mpint(), 'n': r.mpint()}
    elif name == 'ssh-dss':
        d = {'type': 'dss', 'p': r.mpint(), 'q': r.mpint(), 'g': r.mpint(), 'y': r.mpint()}
    elif name.startswith('ecdsa-sha2-'):
        d = {'type': 'ecdsa', 'curve': r.string().decode('ascii'), 'q': r.string()}
    elif name == 'ssh-ed25519':
        d = {'type': 'ed25519', 'key': r.string()}
    else:
        raise ValueError(name)
    d['name'] = name
    assert r.done()
    return d


# ---- OpenSSH PROTOCOL.certkeys ---------------------------------------------------------------------------------------------
def cert_v01(name, nonce, key_fields, serial, cert_type, key_id, principals, valid_after, valid_before,
             critical_options, extensions, reserved, signature_key, signature):
    """key_fields: already-encoded key-specific fields (e.g. mpint e + mpint n).
    critical_options / extensions: list of (name, data bytes) - data is the raw contents of the option's string."""
    packed_principals = b''.join(string(p) for p in principals)
    opts = b''.join(string(n) + string(d) for n, d in critical_options)
    exts = b''.join(string(n) + string(d) for n, d in extensions)
    return string(name) + string(nonce) + key_fields + uint64(serial) + uint32(cert_type) + string(key_id) + \
        string(packed_principals) + uint64(valid_after) + uint64(valid_before) + string(opts) + string(exts) + \
        string(reserved) + string(signature_key) + string(signature)


def cert_v00(name, key_fields, cert_type, key_id, principals, valid_after, valid_before, constraints, nonce,
             reserved, signature_key, signature):
    packed_principals = b''.join(string(p) for p in principals)
    cons = b''.join(string(n) + string(d) for n, d in constraints)
    return string(name) + key_fields + uint32(cert_type) + string(key_id) + string(packed_principals) + \
        uint64(valid_after) + uint64(valid_before) + string(cons) + string(nonce) + string(reserved) + \
        string(signature_key) + string(signature)


# ---- fingerprints / HASSH --------------------------------------------------------------------------------------------------
def fingerprints(blob):
    md5 = hashlib.md5(blob).hexdigest()
    return {
        'SHA256': 'SHA256:' + base64.b64encode(hashlib.sha256(blob).digest()).decode('ascii'),
        'SHA1': 'SHA1:' + base64.b64encode(hashlib.sha1(blob).digest()).decode('ascii'),
        'MD5': 'MD5:' + ':'.join(md5[i:i + 2] for i in range(0, 32, 2)),
        'known_hosts': base64.b64encode(blob).decode('ascii'),
    }


def hassh(kex, enc, mac, comp):
    text = ';'.join(','.join(l) for l in (kex, enc, mac, comp))
    return hashlib.md5(text.encode('ascii')).hexdigest()


def hassh_from_kexinit(data, server=False):
    d = decode_kexinit(data)
    l = d['lists']
    # order in KEXINIT: kex, host key, enc c2s, enc s2c, mac c2s, mac s2c, comp c2s, comp s2c, lang c2s, lang s2c
    if server:
        return hassh(l[0], l[3], l[5], l[7])
    return hassh(l[0], l[2], l[4], l[6])
