"""Declared-domain exclusions for the object neighbourhoods (C01, C05, C13, C14).

The constructors of the library validate types, rarely values.  The property quantifies over "field values inside
the declared domains"; where the declaring document (RFC / protocol spec) narrows a field further than the
constructor does, the variant is outside the domain and is not generated.  Every row cites its reason; a row
never hides a class - only one variant family of one field.
"""
import re

# (class name pattern, tag pattern, reason)
EXCLUSIONS = [
    # --- SSH ---------------------------------------------------------------------------------------------
    ('Ssh*AlgorithmVector', '*str:empty', 'RFC 4251 s6: algorithm names MUST NOT be empty'),
    ('Ssh*AlgorithmVector', '*str:nonascii', 'RFC 4251 s6: names are printable US-ASCII'),
    ('Ssh*AlgorithmVector', '*str:space', 'RFC 4251 s6: names contain no whitespace'),
    ('Ssh*AlgorithmVector', '*unknown-name', 'covered by C10/C16; kept out only where it equals a known name'),
    ('SshLanguageVector', '*str:*', 'RFC 3066 language tags'),
    ('SshSoftwareVersion*', 'version=*', 'RFC 4253 s4.2: softwareversion is a non-empty printable token; vendor '
                                        'classes pin their own version syntax'),
    ('SshSoftwareVersionUnparsed', 'raw=str:empty', 'RFC 4253 s4.2: softwareversion is non-empty'),
    ('SshSoftwareVersionUnparsed', 'raw=str:space', 'RFC 4253 s4.2: SP separates the comment'),
    ('SshSoftwareVersionUnparsed', 'raw=str:nonascii', 'RFC 4253 s4.2: US-ASCII'),
    ('SshProtocolMessage', 'comment=str:empty', 'RFC 4253 s4.2: a present comment is non-empty'),
    ('SshProtocolMessage', 'comment=opt:empty', 'RFC 4253 s4.2: a present comment is non-empty'),
    ('SshProtocolMessage', '*str:len25?', 'RFC 4253 s4.2: the identification string is at most 255 characters'),
    # --- DNS ---------------------------------------------------------------------------------------------
    ('DnsNameUncompressed', '*str:empty', 'RFC 1035 s3.1: the empty label is the root terminator only'),
    ('DnsNameUncompressed', '*str:len25?', 'RFC 1035 s2.3.4: labels are at most 63 octets'),
    ('DnsNameUncompressed', '*str:space', 'host-name labels (IDNA) contain no whitespace'),
    ('DnsNameUncompressed', '*str:upper', 'RFC 3490 nameprep folds case; DNS names are case-insensitive'),
    ('DnsNameUncompressed', '*str:swapcase', 'RFC 3490 nameprep folds case; DNS names are case-insensitive'),
    # --- RDP / OpenVPN / MySQL ------------------------------------------------------------------------------
    ('TPKT', 'version=*', 'RFC 1006 s6: vrsn is always 3'),
    ('RDPNegotiation*', 'protocol=set:*RDP', 'PROTOCOL_RDP is the value 0, i.e. the absence of every flag'),
    ('RDPNegotiation*', 'protocol=set:all', 'contains PROTOCOL_RDP = 0 (absence of every flag)'),
    ('OpenVpnPacket*', 'packet_id_array.del*', 'remote_session_id is present exactly when the ack array is '
                                               'non-empty (OpenVPN wire format)'),
    ('OpenVpnPacket*', 'remote_session_id=*', 'remote_session_id is present exactly when the ack array is non-empty'),
    ('MySQLHandshakeV10', 'auth_plugin_data=bytes:*', 'auth-plugin-data-part-1 is exactly 8 bytes (HandshakeV10)'),
    ('MySQLHandshakeV10', 'character_set=None', 'HandshakeV10 always carries the character set octet'),
    ('MySQLHandshakeV10', 'server_version=str:nonascii', 'NUL-terminated ASCII string'),
    ('MySQLHandshakeV10', 'server_version=str:nul', 'string<NUL>: the value cannot contain the terminator'),
    ('MySQLHandshakeV10', 'auth_plugin_name=*', 'present exactly when CLIENT_PLUGIN_AUTH is set'),
    ('MySQLHandshakeV10', 'auth_plugin_data_2=None', 'present exactly when CLIENT_PLUGIN_AUTH is set'),
    ('MySQLHandshakeV10', 'auth_plugin_data_2=opt:*', 'present exactly when CLIENT_PLUGIN_AUTH is set'),
    ('MySQLHandshakeV10', 'auth_plugin_data_2=bytes:empty', 'an empty part 2 is written as absent'),
    ('MySQLHandshakeV10', 'auth_plugin_data_2=bytes:len2*', 'auth_plugin_data_len is one octet (8 + part 2 <= 255)'),
    ('MySQLHandshakeV10', 'auth_plugin_data_2=bytes:len[136]*', 'auth_plugin_data_len is one octet'),
    ('MySQLHandshakeV10', 'capabilities=set:*PLUGIN_AUTH', 'toggles the presence of the auth-plugin fields'),
    ('MySQLHandshakeV10', 'capabilities=set:all', 'toggles the presence of the auth-plugin fields'),
    ('MySQLHandshakeV10', 'capabilities=set:empty', 'toggles the presence of the auth-plugin fields'),
    ('MySQLHandshakeSslRequest', 'capabilities=set:*PROTOCOL_41', 'switches between the 4.1 and pre-4.1 layouts '
                                                                  '(character_set present/absent)'),
    ('MySQLHandshakeSslRequest', 'capabilities=set:empty', 'switches to the pre-4.1 layout'),
    ('MySQLHandshakeSslRequest', 'capabilities=set:all', 'layout switch'),
    ('MySQLHandshakeSslRequest', 'character_set=*', 'present exactly when CLIENT_PROTOCOL_41 is set'),
    ('MySQLHandshake*', 'capabilities=set:only:*', 'drops the capability that selects the layout'),
    ('TlsExtensionPadding', 'length=int:0x*', 'RFC 7685: the padding fits the 2-byte extension length (< 2^16)'),
    # --- TLS ---------------------------------------------------------------------------------------------
    ('TlsExtensionServerName*', 'host_name=str:empty', 'RFC 6066 s3: HostName is 1..2^16-1 bytes'),
    ('TlsExtensionServerName*', 'host_name=str:len25?', 'RFC 1035: labels are at most 63 octets'),
    ('TlsExtensionServerName*', 'host_name=str:space', 'host names contain no whitespace'),
    ('SshKeyExchangeInit', 'cookie=bytes:*', 'RFC 4253 s7.1: the cookie is exactly 16 bytes'),
    ('SshKeyExchangeInit', 'first_kex_packet_follows=int:*', 'RFC 4251 s5: a boolean is stored as 0 or 1 only (the '
                                                           'field is declared as integer; 0 / 1 are the default and its toggle)'),
    ('*', '*host_key_algorithm=enum:*', 'the algorithm name of a host key / certificate object is fixed by its class '
                                        '(the classes dispatch on it); another name makes the object another type'),
    ('DnsRecordDnskey', 'algorithm=enum:*', 'the DNSSEC algorithm fixes the key type and curve/size of the key '
                                            'object it is paired with (RFC 4034 s2.1.3); covered by C08/C10'),
    # --- text grammars -----------------------------------------------------------------------------------
    ('NameValuePair', 'quoted=None', 'quoted is a bool'),
    ('NameValuePair', 'value=None', 'with value None the quoted flag has no meaning'),
    ('ContentSecurityPolicySourceHash', 'hash_algorithm=enum:*', 'CSP3 hash-algorithm is sha256 / sha384 / sha512; '
                                                                 'the other members of the shared Hash enum have no '
                                                                 'CSP spelling'),
    ('DnsRecordTxtValue*', 'extensions=opt:*', 'an empty extension list is the absent list'),
    ('FieldValueMimeType', 'registry=None', 'a media type always has a top-level type (RFC 6838)'),
    ('HttpHeaderFieldValueContentType', 'mime_type.registry=None', 'a media type always has a top-level type'),
]


_RX = {}


def _glob(pat):
    """'*' and '?' are the only wildcards (tags contain '[' and ']')."""
    rx = _RX.get(pat)
    if rx is None:
        rx = re.compile('^' + re.escape(pat).replace('\\*', '.*').replace('\\?', '.') + '$')
        _RX[pat] = rx
    return rx


def excluded(obj, tag):
    names = [k.__name__ for k in type(obj).__mro__]
    if 'NameValuePair' in names and tag.startswith('quoted=') and getattr(obj, 'value', None) is None:
        return True     # a pair without value has nothing to quote
    if tag.endswith('.del[0]') or '.delkey[0]' in tag:
        # removing the last remaining element of a list that the grammar requires to be non-empty / whose empty
        # form is the absent form
        field = tag.split('.')[0]
        cur = getattr(obj, field, None)
        inner = getattr(cur, 'value', cur)
        try:
            if len(inner) == 1 and (any(n.startswith('ContentSecurityPolicyDirective') for n in names) or
                                    'delkey' in tag):
                return True
        except TypeError:
            pass
    for cpat, tpat, _ in EXCLUSIONS:
        if _glob(tpat).match(tag) and any(_glob(cpat).match(n) for n in names):
            return True
    return False


def is_opaque_leaf(obj):
    """Objects whose internals are not varied field-by-field: unknown/GREASE code wrappers (their code must not be
    a defined code; the list alphabets insert GREASE and unknown wrappers directly), keys and certificates."""
    name = type(obj).__name__
    mod = type(obj).__module__
    return name.startswith('TlsInvalidType') or mod.startswith('cryptodatahub.') or mod.startswith('asn1crypto.')
